"""Translation validation helpers: BMC over R (vf/refsem.py) on the original and on the
compiled problem, tied together by the REAL map_back_action_instance.

  table(Rc, Ro, result)    compiled ground instance index -> original ground instance index | -1 (dropped / None)
  unroll(R, k, choices)    k-step transition system driven by given z3 Int choice terms; choice -1 = no-op
  traj_ok(R, states, n)    PDDL3 semantics of the problem's trajectory constraints over states[0..n]
  valid(R, u, n)           first n steps applicable, goal in states[n], trajectory constraints hold
"""
import itertools

import z3

from vf.refsem import RState, V


def instances(R):
    return R.ground_actions()


def table(Rc, Ro, result, env):
    """Run the real map_back_action_instance on every compiled ground instance."""
    from unified_planning.plans import ActionInstance

    em = env.expression_manager
    orig = instances(Ro)
    index = {(a.name, tuple(o.name for o in objs)): i for i, (a, objs) in enumerate(orig)}
    out = []
    for a, objs in instances(Rc):
        ai = ActionInstance(a, tuple(em.ObjectExp(o) for o in objs))
        back = result.map_back_action_instance(ai)
        if back is None:
            out.append(-1)
            continue
        key = (back.action.name, tuple(p.object().name for p in back.actual_parameters))
        if key not in index:
            raise KeyError(f"map_back returned {back} which is not a ground instance of the original problem")
        out.append(index[key])
    return out


def lookup(tab, c, default=-2):
    """z3 term  tab[c]  (an ITE chain); out-of-range -> default"""
    t = z3.IntVal(default)
    for i, v in enumerate(tab):
        t = z3.If(c == i, z3.IntVal(v), t)
    return t


def unroll(R, k, choices, s0=None, gas=None):
    gas = gas if gas is not None else instances(R)
    s = s0 if s0 is not None else R.init_state()
    states, app = [s], []
    for i in range(k):
        c = choices[i]
        steps = [R.step(s, a, R.bind(a, objs)) for a, objs in gas]
        vals = {}
        for key in R.gkeys:
            t, d = s.vals[key].t, s.vals[key].d
            for j, (okj, sj) in enumerate(steps):
                t = z3.If(c == j, sj.vals[key].t, t)
                d = z3.If(c == j, sj.vals[key].d, d)
            vals[key] = V(t, d)
        ok = z3.Or([c == -1] + [z3.And(c == j, okj) for j, (okj, _) in enumerate(steps)])
        s = RState(vals)
        states.append(s)
        app.append(ok)
    return dict(states=states, choice=list(choices[:k]), app=app, gas=gas)


def _holds(R, e, s):
    return R.holds(e, s)


def traj_ok(R, states, n):
    """PDDL3 semantics over states[0..n] (n concrete). Always-constraints are already part of step() (state invariants) and
    of initial_ok(); they are included again here for completeness."""
    cs = []
    seq = states[: n + 1]
    for tc in R.p.trajectory_constraints:
        cs.append(_traj(R, tc, seq, {}))
    return z3.And(cs) if cs else z3.BoolVal(True)


def _traj(R, tc, seq, b):
    if tc.is_and():
        return z3.And([_traj(R, a, seq, b) for a in tc.args])
    if tc.is_forall():
        vs = tc.variables()
        doms = [list(R.p.objects(v.type)) for v in vs]
        out = []
        for combo in itertools.product(*doms):
            b2 = dict(b)
            for v, o in zip(vs, combo):
                b2[v.name] = V(z3.IntVal(R.oidx[o.name]))
            out.append(_traj(R, tc.arg(0), seq, b2))
        return z3.And(out) if out else z3.BoolVal(True)
    h = lambda e, s: R.expr(e, s, b).sat()  # noqa: E731
    if tc.is_always():
        return z3.And([h(tc.arg(0), s) for s in seq])
    if tc.is_sometime():
        return z3.Or([h(tc.arg(0), s) for s in seq])
    if tc.is_at_most_once():
        # phi may become true, then false, and must never become true again
        cs = []
        for i in range(len(seq)):
            for j in range(i + 1, len(seq)):
                for l in range(j + 1, len(seq)):
                    cs.append(z3.Not(z3.And(h(tc.arg(0), seq[i]), z3.Not(h(tc.arg(0), seq[j])), h(tc.arg(0), seq[l]))))
        return z3.And(cs) if cs else z3.BoolVal(True)
    if tc.is_sometime_before():
        # (sometime-before phi psi): whenever phi holds at i, psi held at some j < i
        phi, psi = tc.arg(0), tc.arg(1)
        return z3.And([z3.Implies(h(phi, seq[i]), z3.Or([h(psi, seq[j]) for j in range(i)]) if i else z3.BoolVal(False)) for i in range(len(seq))])
    if tc.is_sometime_after():
        # (sometime-after phi psi): whenever phi holds at i, psi holds at some j >= i
        phi, psi = tc.arg(0), tc.arg(1)
        return z3.And([z3.Implies(h(phi, seq[i]), z3.Or([h(psi, seq[j]) for j in range(i, len(seq))])) for i in range(len(seq))])
    raise NotImplementedError(f"trajectory constraint {tc}")


def valid(R, u, n):
    rng = [z3.And(c >= -1, c < len(u["gas"])) for c in u["choice"][:n]]
    return z3.And([R.initial_ok()] + u["app"][:n] + rng + [R.goal(u["states"][n]), traj_ok(R, u["states"], n)])


def enumerate_valid_plans(R, k, cap=40, timeout_ms=20000):
    """All valid plans (no no-ops) of length <= k of R's problem, by blocking clauses; -> (plans, complete?)"""
    plans = []
    complete = True
    for n in range(k + 1):
        cs = [z3.Int(f"e{n}_{i}") for i in range(n)]
        u = unroll(R, n, cs)
        s = z3.Solver()
        s.set("timeout", timeout_ms)
        s.add(valid(R, u, n))
        s.add([c >= 0 for c in cs])
        while True:
            r = s.check()
            if r == z3.unknown:
                complete = False
                break
            if r == z3.unsat:
                break
            m = s.model()
            plan = [m.eval(c, model_completion=True).as_long() for c in cs]
            plans.append(plan)
            if len(plans) >= cap:
                return plans, False
            if not cs:
                break
            s.add(z3.Or([c != v for c, v in zip(cs, plan)]))
    return plans, complete


def run_plan(R, plan, s0=None):
    """R unrolled along a CONCRETE list of ground-instance indices (no choice variables): -> (applicable terms, states)"""
    gas = instances(R)
    s = s0 if s0 is not None else R.init_state()
    states, app = [s], []
    for i in plan:
        a, objs = gas[i]
        ok, s = R.step(s, a, R.bind(a, objs))
        app.append(ok)
        states.append(s)
    return app, states


def valid_plan(R, plan):
    app, states = run_plan(R, plan)
    return z3.And([R.initial_ok()] + app + [R.goal(states[-1]), traj_ok(R, states, len(plan))])
