import argparse
import json
import os
import sys


def main():
    ap = argparse.ArgumentParser(prog="check")
    ap.add_argument("property")
    ap.add_argument("--tier", default=os.environ.get("VERIF_TIER", "quick"), choices=["quick", "thorough"])
    ap.add_argument("--seed", type=int, default=int(os.environ.get("VERIF_SEED", "0") or 0))
    ap.add_argument("--replay")
    ap.add_argument("--jobs", type=int)
    ap.add_argument("--shard", help="run only shards whose name contains this (debugging; evidence still written)")
    a = ap.parse_args()
    from vf import runner
    if a.replay:
        v = runner.run_replay(a.replay)
        print(json.dumps(v, indent=1))
        if v.get("reproduced"):
            print(f"VIOLATION property={a.property} replay={a.replay}")
            return 1
        return 0
    if a.shard:
        mod = runner.load_prop(a.property)
        orig = mod.shards
        mod.shards = lambda tier, seed: [s for s in orig(tier, seed) if a.shard in s["name"]]
    return runner.main(a.property, a.tier, a.seed, a.jobs)


sys.exit(main())
