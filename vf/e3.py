"""E3: IEEE-754-exact proxy numbers for unit-level (concolic) execution of arithmetic kernels.

SInt / SFloat / SFrac stand for a python int / float / fractions.Fraction of unknown value and carry a z3 term
(Int / FloatingPoint(11,53) / Real).  Their operators build terms with python's semantics:
  int +,-,*            exact (z3 Int);  //, % floor semantics (sign of the divisor), ZeroDivisionError decided as a branch
  int / int            the correctly rounded binary64 quotient (CPython long_true_divide): exact quotient q -> to_fp(RNE, q);
                       inexact -> fp.div(RNE, to_fp(a), to_fp(b)) under the recorded assumption |a|, |b| <= 2**53
  int(float)           fp.to_sbv(RTZ) (OverflowError / ValueError on inf / nan decided as branches)
  float(int)           to_fp(RNE, signed bit-vector of the int)
  Fraction(a, b), Fraction(x), +,-,*,/ on fractions      exact rationals (z3 Real)
bool() of a comparison asks the engine to decide: both sides feasible -> ctx.choice (the choice-only driver re-executes the
harness for every decision vector, i.e. DFS over the branches of the real function); the path condition is kept in eng.pc.
proxies(eng) returns proxy-aware replacements for the names `int`, `float`, `Fraction` of the module under test
(isinstance and construction understand the proxies); anything not modelled raises (TypeError / HarnessError), never guesses.
Used by vf/props/c11.py (layer 2).  No import of crosshair; z3 is imported lazily.
"""
from fractions import Fraction

I64 = (-(2 ** 63), 2 ** 63 - 1)


class Engine:
    """per-path state of the proxy run: path condition (z3), decisions taken through ctx.choice (the choice-only driver
    re-executes the harness for every decision vector = DFS over the branches of the real function)"""

    def __init__(self, ctx, timeout_ms=60000):
        import z3

        self.z3 = z3
        self.ctx = ctx
        self.pc = []
        self.nd = 0
        self.timeout_ms = timeout_ms
        self.notes = []
        self.fresh = 0
        self.F64 = z3.Float64()
        self.used_float = False

    def feasible(self, extra):
        s = self.z3.Solver()
        s.set("timeout", self.timeout_ms)
        s.add(self.pc)
        s.add(extra)
        return s.check() != self.z3.unsat  # unknown counts as feasible (the final query decides)

    def assume(self, cond, why):
        self.pc.append(cond)
        self.notes.append(why)

    def decide(self, cond):
        z3 = self.z3
        c = z3.simplify(cond)
        if z3.is_true(c):
            return True
        if z3.is_false(c):
            return False
        can_t, can_f = self.feasible(c), self.feasible(z3.Not(c))
        if can_t and can_f:
            take = self.ctx.choice(f"d{self.nd}", 2) == 0
            self.nd += 1
        elif can_t or can_f:
            take = can_t
        else:
            self.ctx.assume(False)
        self.pc.append(c if take else z3.Not(c))
        return take

    # -- conversions
    def int_to_fp(self, t):
        """correctly rounded binary64 of the (mathematical) integer t, |t| < 2**69"""
        z3 = self.z3
        self.used_float = True
        b = z3.BitVec(f"e3_bv{self.fresh}", 70)
        self.fresh += 1
        self.pc.append(z3.BV2Int(b, True) == t)
        return z3.fpSignedToFP(z3.RNE(), b, self.F64)

    def fp_to_int(self, f):
        """int(float): truncation toward zero; OverflowError / ValueError on inf / nan as python raises them"""
        z3 = self.z3
        if self.decide(z3.fpIsInf(f)):
            raise OverflowError("cannot convert float infinity to integer")
        if self.decide(z3.fpIsNaN(f)):
            raise ValueError("cannot convert float NaN to integer")
        self.assume(z3.fpLEQ(z3.fpAbs(f), z3.FPVal(2.0 ** 100, self.F64)), "int(float) modelled for |float| <= 2**100")
        return SInt(self, z3.BV2Int(z3.fpToSBV(z3.RTZ(), f, z3.BitVecSort(128)), True))


def zint(eng, x):
    if isinstance(x, SInt):
        return x.t
    if isinstance(x, bool) or not isinstance(x, int):
        raise TypeError(f"E3: int operand expected, got {type(x).__name__}")
    return eng.z3.IntVal(x)


def zreal(eng, x):
    z3 = eng.z3
    if isinstance(x, SFrac):
        return x.q
    if isinstance(x, SInt):
        return z3.ToReal(x.t)
    if isinstance(x, Fraction):
        return z3.RealVal(str(x))
    if isinstance(x, int) and not isinstance(x, bool):
        return z3.RealVal(x)
    raise TypeError(f"E3: rational operand expected, got {type(x).__name__}")


class SBool:
    def __init__(self, eng, t):
        self.eng, self.t = eng, t

    def __bool__(self):
        return self.eng.decide(self.t)

    def __invert__(self):
        return SBool(self.eng, self.eng.z3.Not(self.t))


def _cmp(name, op):
    def f(self, o):
        try:
            a, b = self._pair(o)
        except TypeError:
            return NotImplemented
        return SBool(self.eng, op(a, b))
    f.__name__ = name
    return f


class SInt:
    """a python int of unknown value: z3 Int term"""

    def __init__(self, eng, t):
        self.eng, self.t = eng, t

    def _pair(self, o):
        if isinstance(o, (SFrac, Fraction)):
            return zreal(self.eng, self), zreal(self.eng, o)
        if isinstance(o, SFloat) or isinstance(o, float):
            raise TypeError("E3: int/float comparison is not modelled")
        return self.t, zint(self.eng, o)

    __eq__ = _cmp("__eq__", lambda a, b: a == b)
    __ne__ = _cmp("__ne__", lambda a, b: a != b)
    __lt__ = _cmp("__lt__", lambda a, b: a < b)
    __le__ = _cmp("__le__", lambda a, b: a <= b)
    __gt__ = _cmp("__gt__", lambda a, b: a > b)
    __ge__ = _cmp("__ge__", lambda a, b: a >= b)
    __hash__ = None

    def __bool__(self):
        return self.eng.decide(self.t != 0)

    def _arith(self, o, f, swap=False):
        if isinstance(o, (SFrac, Fraction)):
            a, b = zreal(self.eng, self), zreal(self.eng, o)
            return SFrac(self.eng, f(b, a) if swap else f(a, b))
        if isinstance(o, (SFloat, float)):
            return NotImplemented
        a, b = self.t, zint(self.eng, o)
        return SInt(self.eng, f(b, a) if swap else f(a, b))

    def __add__(self, o):
        return self._arith(o, lambda a, b: a + b)

    __radd__ = __add__

    def __sub__(self, o):
        return self._arith(o, lambda a, b: a - b)

    def __rsub__(self, o):
        return self._arith(o, lambda a, b: a - b, swap=True)

    def __mul__(self, o):
        return self._arith(o, lambda a, b: a * b)

    __rmul__ = __mul__

    def __neg__(self):
        return SInt(self.eng, -self.t)

    def __pos__(self):
        return self

    def __abs__(self):
        return SInt(self.eng, self.eng.z3.If(self.t >= 0, self.t, -self.t))

    # floor division / modulo with python semantics (sign of the divisor), ZeroDivisionError as python raises it
    def _divmod(self, a, b):
        z3 = self.eng.z3
        if self.eng.decide(b == 0):
            raise ZeroDivisionError("integer division or modulo by zero")
        q = z3.If(b > 0, a / b, (-a) / (-b))  # z3 `/` on Int is div: floor for a positive divisor
        return q, a - b * q

    def __floordiv__(self, o):
        if isinstance(o, (SFrac, Fraction, SFloat, float)):
            return NotImplemented
        return SInt(self.eng, self._divmod(self.t, zint(self.eng, o))[0])

    def __rfloordiv__(self, o):
        return SInt(self.eng, self._divmod(zint(self.eng, o), self.t)[0])

    def __mod__(self, o):
        if isinstance(o, (SFrac, Fraction, SFloat, float)):
            return NotImplemented
        return SInt(self.eng, self._divmod(self.t, zint(self.eng, o))[1])

    def __rmod__(self, o):
        return SInt(self.eng, self._divmod(zint(self.eng, o), self.t)[1])

    def __divmod__(self, o):
        q, r = self._divmod(self.t, zint(self.eng, o))
        return SInt(self.eng, q), SInt(self.eng, r)

    def _truediv(self, a, b):
        """int / int: the correctly rounded binary64 quotient (CPython long_true_divide)"""
        eng, z3 = self.eng, self.eng.z3
        if eng.decide(b == 0):
            raise ZeroDivisionError("division by zero")
        q = z3.If(b > 0, a / b, (-a) / (-b))
        if eng.decide(a - b * q == 0):  # exact quotient: the nearest double of the integer q
            eng.assume(z3.And(q > -(2 ** 69), q < 2 ** 69), "int -> float modelled for |int| < 2**69")
            return SFloat(eng, eng.int_to_fp(q))
        lim = 2 ** 53
        eng.assume(z3.And(a >= -lim, a <= lim, b >= -lim, b <= lim),
                   "inexact int / int modelled only for |operands| <= 2**53 (fl(a)/fl(b) is then the correctly rounded quotient)")
        return SFloat(eng, z3.fpDiv(z3.RNE(), eng.int_to_fp(a), eng.int_to_fp(b)))

    def __truediv__(self, o):
        if isinstance(o, (SFrac, Fraction)):
            return SFrac.make(self.eng, self, o)
        if isinstance(o, (SFloat, float)):
            return NotImplemented
        return self._truediv(self.t, zint(self.eng, o))

    def __rtruediv__(self, o):
        if isinstance(o, Fraction):
            return SFrac.make(self.eng, o, self)
        return self._truediv(zint(self.eng, o), self.t)

    def __repr__(self):
        return f"SInt({self.t})"


class SFloat:
    """a python float of unknown value: z3 FloatingPoint(11, 53) term"""

    def __init__(self, eng, f):
        self.eng, self.f = eng, f

    def _other(self, o):
        z3 = self.eng.z3
        if isinstance(o, SFloat):
            return o.f
        if isinstance(o, float):
            return z3.FPVal(o, self.eng.F64)
        if isinstance(o, SInt):
            self.eng.assume(z3.And(o.t > -(2 ** 69), o.t < 2 ** 69), "int -> float modelled for |int| < 2**69")
            return self.eng.int_to_fp(o.t)
        if isinstance(o, int) and not isinstance(o, bool):
            return z3.FPVal(float(o), self.eng.F64) if abs(o) <= 2 ** 53 else self.eng.int_to_fp(z3.IntVal(o))
        raise TypeError("E3: float operand expected")

    def _bin(self, o, op, swap=False):
        z3 = self.eng.z3
        try:
            g = self._other(o)
        except TypeError:
            return NotImplemented
        a, b = (g, self.f) if swap else (self.f, g)
        return SFloat(self.eng, op(z3.RNE(), a, b))

    def __add__(self, o):
        return self._bin(o, self.eng.z3.fpAdd)

    __radd__ = __add__

    def __sub__(self, o):
        return self._bin(o, self.eng.z3.fpSub)

    def __rsub__(self, o):
        return self._bin(o, self.eng.z3.fpSub, swap=True)

    def __mul__(self, o):
        return self._bin(o, self.eng.z3.fpMul)

    __rmul__ = __mul__

    def __truediv__(self, o):
        g = self._other(o)
        if self.eng.decide(self.eng.z3.fpIsZero(g)):
            raise ZeroDivisionError("float division by zero")
        return SFloat(self.eng, self.eng.z3.fpDiv(self.eng.z3.RNE(), self.f, g))

    def __neg__(self):
        return SFloat(self.eng, self.eng.z3.fpNeg(self.f))

    def _c(self, o, op):
        try:
            return SBool(self.eng, op(self.f, self._other(o)))
        except TypeError:
            return NotImplemented

    def __eq__(self, o):
        return self._c(o, self.eng.z3.fpEQ)

    def __ne__(self, o):
        r = self._c(o, self.eng.z3.fpEQ)
        return r if r is NotImplemented else ~r

    def __lt__(self, o):
        return self._c(o, self.eng.z3.fpLT)

    def __le__(self, o):
        return self._c(o, self.eng.z3.fpLEQ)

    def __gt__(self, o):
        return self._c(o, self.eng.z3.fpGT)

    def __ge__(self, o):
        return self._c(o, self.eng.z3.fpGEQ)

    __hash__ = None

    def is_integer(self):
        z3 = self.eng.z3
        return bool(SBool(self.eng, z3.fpEQ(z3.fpRoundToIntegral(z3.RTZ(), self.f), self.f)))

    def __repr__(self):
        return f"SFloat({self.f})"


class SFrac:
    """a fractions.Fraction of unknown value: z3 Real term (exact rational)"""

    def __init__(self, eng, q):
        self.eng, self.q = eng, q

    @staticmethod
    def make(eng, num, den):
        z3 = eng.z3
        d = zreal(eng, den)
        if eng.decide(d == 0):
            raise ZeroDivisionError("Fraction(%s, 0)" % (num,))
        return SFrac(eng, zreal(eng, num) / d)

    def _pair(self, o):
        return self.q, zreal(self.eng, o)

    __eq__ = _cmp("__eq__", lambda a, b: a == b)
    __ne__ = _cmp("__ne__", lambda a, b: a != b)
    __lt__ = _cmp("__lt__", lambda a, b: a < b)
    __le__ = _cmp("__le__", lambda a, b: a <= b)
    __gt__ = _cmp("__gt__", lambda a, b: a > b)
    __ge__ = _cmp("__ge__", lambda a, b: a >= b)
    __hash__ = None

    def _arith(self, o, f, swap=False):
        try:
            b = zreal(self.eng, o)
        except TypeError:
            return NotImplemented
        return SFrac(self.eng, f(b, self.q) if swap else f(self.q, b))

    def __add__(self, o):
        return self._arith(o, lambda a, b: a + b)

    __radd__ = __add__

    def __sub__(self, o):
        return self._arith(o, lambda a, b: a - b)

    def __rsub__(self, o):
        return self._arith(o, lambda a, b: a - b, swap=True)

    def __mul__(self, o):
        return self._arith(o, lambda a, b: a * b)

    __rmul__ = __mul__

    def __truediv__(self, o):
        return SFrac.make(self.eng, self, o)

    def __rtruediv__(self, o):
        return SFrac.make(self.eng, o, self)

    def __neg__(self):
        return SFrac(self.eng, -self.q)

    def __repr__(self):
        return f"SFrac({self.q})"


def proxies(eng):
    """proxy-aware `int`, `float`, `Fraction` for the simplifier module's namespace"""
    import builtins

    z3 = eng.z3

    class _IntMeta(type):
        def __instancecheck__(cls, x):
            return isinstance(x, SInt) or builtins.isinstance(x, builtins.int)

        def __call__(cls, x=0, *a):
            if isinstance(x, SInt):
                return x
            if isinstance(x, SFloat):
                return eng.fp_to_int(x.f)
            if isinstance(x, SFrac):
                from vf.ctx import HarnessError

                raise HarnessError("E3: int(Fraction proxy) is not modelled")
            return builtins.int(x, *a)

    class pint(metaclass=_IntMeta):
        pass

    class _FloatMeta(type):
        def __instancecheck__(cls, x):
            return isinstance(x, SFloat) or builtins.isinstance(x, builtins.float)

        def __call__(cls, x=0.0):
            if isinstance(x, SFloat):
                return x
            if isinstance(x, SInt):
                eng.assume(z3.And(x.t > -(2 ** 69), x.t < 2 ** 69), "int -> float modelled for |int| < 2**69")
                return SFloat(eng, eng.int_to_fp(x.t))
            if isinstance(x, SFrac):
                from vf.ctx import HarnessError

                raise HarnessError("E3: float(Fraction proxy) is not modelled")
            return builtins.float(x)

    class pfloat(metaclass=_FloatMeta):
        pass

    class _FracMeta(type):
        def __instancecheck__(cls, x):
            return isinstance(x, SFrac) or builtins.isinstance(x, Fraction)

        def __call__(cls, num=0, den=None):
            if den is None:
                if isinstance(num, SFrac):
                    return num
                if isinstance(num, SInt):
                    return SFrac(eng, z3.ToReal(num.t))
                if isinstance(num, SFloat):  # Fraction(float) is exact
                    if eng.decide(z3.Or(z3.fpIsInf(num.f), z3.fpIsNaN(num.f))):
                        raise OverflowError("cannot convert Infinity/NaN to integer ratio")
                    return SFrac(eng, z3.fpToReal(num.f))
                return Fraction(num)
            if any(isinstance(v, (SInt, SFrac)) for v in (num, den)):
                return SFrac.make(eng, num, den)
            if any(isinstance(v, SFloat) for v in (num, den)):
                raise TypeError("both arguments should be Rational instances")
            return Fraction(num, den)

    class pFraction(metaclass=_FracMeta):
        pass

    return pint, pfloat, pFraction


