"""Translation-validation helpers on top of R (vf/refsem.py): bounded unrollings with a no-op
choice, shared or mapped choice variables, constant states.

A plan of length <= k is a choice sequence c_1..c_k over {0..n-1} (ground actions) + {n} (no-op:
state unchanged, always applicable), so `valid(u)` ranges over all plans of length <= k at once.
"""
import z3

from vf.refsem import FALSE, TRUE, RState, V


def const_state(ref, values):
    """values: {ground key: python bool | int} -> fully defined constant RState (keys missing are undefined)."""
    vals = {}
    for k, f, _a in ref.ground:
        if k in values and values[k] is not None:
            v = values[k]
            t = z3.BoolVal(bool(v)) if f.type.is_bool_type() else (z3.RealVal(v) if f.type.is_real_type() else z3.IntVal(int(v)))
            vals[k] = V(t, TRUE)
        else:
            vals[k] = V(z3.Const(f"{ref.name}undef.{k}", ref.sort_of(f.type)), FALSE)
    return RState(vals)


def unroll(ref, k, s0=None, gas=None, tag="", choices=None, noop=True, step_kw=None):
    """k steps.  choices: optional list of k z3 Int terms (shared / mapped from another unrolling);
    fresh Int constants otherwise.  Value len(gas) selects the no-op when noop=True."""
    gas = gas if gas is not None else ref.ground_actions()
    s = s0 if s0 is not None else ref.init_state()
    n = len(gas)
    step_kw = step_kw or {}
    states, choice, app = [s], [], []
    for i in range(k):
        c = choices[i] if choices is not None else z3.Int(f"{ref.name}{tag}act{i}")
        steps = [ref.step(s, a, ref.bind(a, objs), **step_kw) for a, objs in gas]
        vals = {}
        for key in ref.gkeys:
            t, d = s.vals[key].t, s.vals[key].d
            for j, (_okj, sj) in enumerate(steps):
                nv = sj.vals[key]
                if nv is s.vals[key]:
                    continue
                t = z3.If(c == j, nv.t, t)
                d = z3.If(c == j, nv.d, d)
            vals[key] = V(t, d)
        alts = [z3.And(c == j, okj) for j, (okj, _) in enumerate(steps)]
        if noop:
            alts.append(c == n)
        s = RState(vals)
        states.append(s)
        choice.append(c)
        app.append(z3.Or(alts) if alts else FALSE)
    return dict(states=states, choice=choice, app=app, gas=gas, n=n, noop=noop, ref=ref)


def dom(u):
    hi = u["n"] if u["noop"] else u["n"] - 1
    return z3.And([z3.And(c >= 0, c <= hi) for c in u["choice"]]) if u["choice"] else TRUE


def executable(u):
    return z3.And(u["app"]) if u["app"] else TRUE


def valid(u, goal=None):
    """every step applicable (or no-op) and the goals hold in the last state"""
    g = u["ref"].goal(u["states"][-1]) if goal is None else goal(u["states"][-1])
    return z3.And(executable(u), g)


def mapped_choice(c, table, default):
    """z3 Int term table[c] (python list of ints); `default` outside the table."""
    t = z3.IntVal(default)
    for j in reversed(range(len(table))):
        t = z3.If(c == j, z3.IntVal(table[j]), t)
    return t


def distinct_states(ref, states):
    """all states pairwise different (closure check of an exact BMC planner)"""
    cs = []
    for i in range(len(states)):
        for j in range(i + 1, len(states)):
            cs.append(z3.Not(ref.states_equal(states[i], states[j])))
    return z3.And(cs) if cs else TRUE


def plan_of_model(model, u):
    out = []
    for c in u["choice"]:
        v = model.eval(c, model_completion=True).as_long()
        if 0 <= v < u["n"]:
            a, objs = u["gas"][v]
            out.append((a, objs))
    return out
