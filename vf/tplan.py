"""Helpers shared by the temporal plan-conversion harnesses (C26, C28, C29).

Nothing here touches /repo.  Everything is plain python that also runs in a replay
(no crosshair import at module level).
"""
import contextlib
from fractions import Fraction


@contextlib.contextmanager
def as_global(env):
    """Run a block with `env` installed as unified_planning's GLOBAL_ENVIRONMENT.

    Some library functions create their helper actions / plans without passing an environment
    (they silently use the global one).  The harness rule "everything lives in a fresh
    Environment per path" would make those functions fail on the very first line, so the
    fresh environment is made *the* global environment for the duration of the call.  That
    is the only situation those functions support; the non-global case is probed separately
    by a dedicated shard."""
    import unified_planning.environment as E

    old = E.GLOBAL_ENVIRONMENT
    E.GLOBAL_ENVIRONMENT = env
    try:
        yield env
    finally:
        E.GLOBAL_ENVIRONMENT = old


def q(k, den=4):
    """Fraction(k, den); k may be a symbolic int."""
    return Fraction(k, den)


def num(ctx, name, spec, default):
    """A numerator: solver variable when `spec` = [lo, hi] is given, `default` otherwise."""
    if spec is None:
        return default
    lo, hi = spec
    if ctx.mode == "direct":
        return lo + ctx.choice(name, hi - lo + 1)
    return ctx.int(name, lo, hi)


def zt(x):
    """z3 term of an int / Fraction / bool whose parts may be CrossHair symbolics (call untraced)."""
    import z3

    v = getattr(x, "var", None)
    if v is not None and not isinstance(x, (bool, int, Fraction)):
        return v
    if isinstance(x, bool):
        return z3.BoolVal(x)
    if isinstance(x, int):
        return z3.IntVal(x)
    if isinstance(x, Fraction):
        n, d = x._numerator, x._denominator
        if hasattr(n, "var") or hasattr(d, "var"):
            return z3.ToReal(zt(n)) / z3.ToReal(zt(d))
        return z3.RealVal(f"{n}/{d}")
    if v is not None:
        return v
    raise TypeError(f"zt: {type(x)}")


def zreal(x):
    import z3

    t = zt(x)
    return z3.ToReal(t) if t.sort() == z3.IntSort() else t


def tt_valid(env, problem, plan):
    """Verdict of the real TimeTriggeredPlanValidator (True iff VALID)."""
    from unified_planning.engines.plan_validator import TimeTriggeredPlanValidator
    from unified_planning.engines.results import ValidationResultStatus

    v = TimeTriggeredPlanValidator(environment=env)
    v.skip_checks = True
    res = v.validate(problem, plan)
    return res.status == ValidationResultStatus.VALID, res


def seq_valid(env, problem, plan):
    from unified_planning.engines.plan_validator import SequentialPlanValidator
    from unified_planning.engines.results import ValidationResultStatus

    v = SequentialPlanValidator(environment=env)
    v.skip_checks = True
    res = v.validate(problem, plan)
    return res.status == ValidationResultStatus.VALID, res


def fs(x):
    """short text of a (possibly symbolic) Fraction for messages; never forks."""
    try:
        if isinstance(x, Fraction) and (hasattr(x._numerator, "var") or hasattr(x._denominator, "var")):
            return "<sym>"
        return str(x)
    except Exception:  # pragma: no cover
        return "<?>"
