"""Boolean combinators that never branch: python bools stay python bools, anything
symbolic becomes a SymbolicBool over a z3 term.  A harness builds its assertion with
these and hands it to ctx.require(), which asks the path solver for a countermodel
(sym mode) or just checks the bool (replay)."""


def _is_sym(x):
    # NOT isinstance(x, bool): under the tracer CrossHair's isinstance reports a SymbolicBool as bool
    return not (x is True or x is False) and hasattr(x, "var")


def _z(x):
    import z3

    if x is True or x is False:
        return z3.BoolVal(x)
    if _is_sym(x):
        return x.var
    if isinstance(x, z3.ExprRef):
        return x
    raise TypeError(f"not a boolean: {type(x)}")


def _mk(xs, py, zf):
    import z3

    if not any(_is_sym(x) or isinstance(x, z3.ExprRef) for x in xs):
        return py([bool(x) for x in xs])
    from crosshair.libimpl.builtinslib import SymbolicBool
    from crosshair.tracers import NoTracing

    with NoTracing():
        return SymbolicBool(zf([_z(x) for x in xs]))


def And(*xs):
    try:
        import z3
    except ImportError:  # pragma: no cover
        return all(xs)
    return _mk(xs, all, lambda zs: z3.And(zs))


def Or(*xs):
    import z3

    return _mk(xs, any, lambda zs: z3.Or(zs))


def Not(x):
    import z3

    return _mk([x], lambda b: not b[0], lambda zs: z3.Not(zs[0]))


def Implies(a, b):
    import z3

    return _mk([a, b], lambda v: (not v[0]) or v[1], lambda zs: z3.Implies(zs[0], zs[1]))


def Iff(a, b):
    return _mk([a, b], lambda v: v[0] == v[1], lambda zs: zs[0] == zs[1])
