"""S7 (engine-compatibility shim, symbolic mode only): comparisons between a symbolic int and +-inf.

TypeChecker.walk_plus/minus/times end with `if lower == -float("inf")` / `if upper == float("inf")`.  With a symbolic
integer bound CrossHair turns that into a floating-point query (fpEQ(to_fp(ToReal(10 + k)), +oo)) that z3 answers in
5-10 s or not at all.  The answer does not depend on the integer: an int is never equal to an infinity and lies strictly
between -inf and +inf.  This handler answers exactly that and delegates every other operand pair to CrossHair's handler.
Representation only; nothing under /repo is touched; never imported on replay.
"""
import math
import operator as ops

_done = False


def install():
    global _done
    if _done:
        return
    _done = True
    from crosshair.libimpl import builtinslib as B

    def find(op, ta, tb):
        for curop, ca, cb, fn in reversed(B._BIN_OPS_SEARCH_ORDER):
            if op == curop and issubclass(ta, ca) and issubclass(tb, cb) and not getattr(fn, "_vf_inf", False):
                return fn
        return None

    def mk(old, flipped):
        def h(o, a, b):
            f = a if flipped else b
            if type(f) is float and math.isinf(f):
                below = f > 0  # the int is below f
                if flipped:    # f <op> int
                    table = {ops.eq: False, ops.ne: True, ops.lt: not below, ops.le: not below, ops.gt: below, ops.ge: below}
                else:          # int <op> f
                    table = {ops.eq: False, ops.ne: True, ops.lt: below, ops.le: below, ops.gt: not below, ops.ge: not below}
                return table[o]
            return old(o, a, b) if old is not None else NotImplemented

        h._vf_inf = True
        return h

    for op in (ops.eq, ops.ne, ops.lt, ops.le, ops.gt, ops.ge):
        B._BIN_OPS_SEARCH_ORDER.append((op, B.SymbolicInt, float, mk(find(op, B.SymbolicInt, float), False)))
        B._BIN_OPS_SEARCH_ORDER.append((op, float, B.SymbolicInt, mk(find(op, float, B.SymbolicInt), True)))
    B._BIN_OPS.clear()
