"""Problem skeleton family G (DESIGN.md section 3).

A skeleton is a small declarative record; build() turns it into real unified-planning
objects in the path's fresh environment.  Numeric leaves (initial values, constants,
bounds, increments) are solver variables obtained from ctx; Boolean initial values fork.

skeleton = dict(
    pre=[cond ids], effs=[effect ids], inv=[invariant ids], goal=[cond ids],
    n_bounds="none"|"both"|"lower"|"upper", undef_u=True, second_action=[effect ids] | None)
"""
import unified_planning as up
from unified_planning.model import Fluent, InstantaneousAction, Object, Problem, Variable

COND_NAMES = {
    0: "b", 1: "not b", 2: "p(x)", 3: "x == o1", 4: "n < c", 5: "c <= n", 6: "b or p(x)", 7: "exists y:S. p(y)",
    8: "forall y:T. p(y) or b", 9: "n <= u (u undefined)", 10: "w(x) == o1", 11: "p(w(x))", 12: "not p(x)", 13: "n + 1 <= c",
    14: "F(n) < c (interpreted function)", 15: "st(x) (static Boolean fluent, default true)", 16: "exists y:T. p(y)",
    17: "m(x) <= c", 18: "u <= n (u undefined, LEFT operand: the walker has n's value before it fails on u)",
}
EFF_NAMES = {
    0: "b := false", 1: "when C: b := true", 2: "n += d", 3: "n -= d", 4: "n := c1", 5: "when C: n := c2",
    6: "forall y:T. p(y) := v", 7: "w(x) := x", 8: "n := n + d", 9: "when C: n += d", 10: "p(x) := true", 11: "u := c1",
    12: "b := true", 13: "forall y:T. when p(y): p(y) := false", 14: "when C: w(x) := o1", 15: "p(x) := false",
    16: "when C: n -= d2", 17: "n := u", 18: "u -= d", 19: "u += d", 20: "forall y:T. when p(y): b := true",
    21: "p(w(x)) := false (nested fluent in the effect target: Effect.__init__ rejects it, no skeleton uses it)", 22: "m(x) += d (bounded numeric fluent with a parameter)",
    23: "m(x) -= d",
}
INV_NAMES = {0: "always n <= c3", 1: "always b or p(o1)", 2: "always forall y. b or not p(y)",
             3: "always p(o1) or not p(o2)", 4: "always b or not p(o2)", 5: "always not p(w(o1)) (a fluent nested in the invariant)"}
TRAJ_NAMES = {0: "sometime b", 1: "at-most-once p(o1)", 2: "sometime-before b p(o1)", 3: "sometime-after p(o1) b",
              4: "always (b or not p(o2))", 5: "sometime p(o2)", 6: "at-most-once b"}


DEFAULTS = dict(lb=0, ub=5, x0=2, c=3, d=2, c1=1, c2=4, c3=5, d2=1, u0=3)


class G:
    """built problem + handles"""


def build(ctx, sk, env=None):
    """Build the skeleton; model-building calls the library rejects (UPTypeError: e.g. an increment outside the
    fluent's bounds is 'incompatible') prune the path: such problems do not exist."""
    from unified_planning.exceptions import UPConflictingEffectsException, UPTypeError

    try:
        return _build(ctx, sk, env)
    except (UPTypeError, UPConflictingEffectsException):
        ctx.assume(False)


def _build(ctx, sk, env=None):
    env = env or ctx.fresh_env(hashcons=sk.get("hashcons", "syntactic"))
    em, tm = env.expression_manager, env.type_manager
    g = G()
    g.env, g.em, g.tm, g.sk = env, em, tm, sk
    nm = lambda k: (sk.get("names") or {}).get(k, k)  # noqa: E731  identifier overrides (adversarial pools)
    g.nm = nm
    with ctx.untraced():
        T = tm.UserType(nm("T"))
        S = tm.UserType(nm("S"), T)
        g.T, g.S = T, S
        o1, o2 = Object(nm("o1"), T, env), Object(nm("o2"), S, env)
        objs = [o1, o2]
        if sk.get("three_objects"):
            objs.append(Object(nm("o3"), T, env))
        g.objs = objs
        b = Fluent(nm("b"), tm.BoolType(), environment=env)
        p = Fluent(nm("p"), tm.BoolType(), environment=env, **{nm("x"): T})
        w = Fluent(nm("w"), T, environment=env, **{nm("x"): T})
        u = Fluent(nm("u"), tm.IntType(), environment=env)
    g.o1, g.o2 = o1, o2
    # numeric fluent n with (possibly symbolic) bounds
    nb = sk.get("n_bounds", "none")
    sym = sk.get("sym")  # names of the leaves that are solver variables (None: all); the others take DEFAULTS
    is_sym = lambda name: sym is None or name in sym  # noqa: E731
    DEFAULTS = dict(globals()["DEFAULTS"], **(sk.get("values") or {}))  # concrete overrides, e.g. from a choice-driven pool
    lb = ub = None
    if nb in ("both", "lower"):
        lb = ctx.int("lb", *sk.get("lb_range", (-2, 2))) if is_sym("lb") else DEFAULTS["lb"]
    if nb in ("both", "upper"):
        ub = ctx.int("ub", *sk.get("ub_range", (-1, 5))) if is_sym("ub") else DEFAULTS["ub"]
    if lb is not None and ub is not None:
        ctx.assume(lb <= ub)
    n = Fluent(nm("n"), tm.IntType(lb, ub), environment=env)
    g.b, g.p, g.w, g.u, g.n, g.lb, g.ub = b, p, w, u, n, lb, ub
    m = Fluent(nm("m"), tm.IntType(lb, ub), environment=env, **{nm("x"): T})  # same (possibly symbolic) bounds as n, one parameter
    g.m = m
    g.st = None
    F = None
    uses = set(sk.get("pre", [])) | set(sk.get("goal", [])) | {sk.get("effcond", 2), sk.get("effcond2", 0)}
    if 14 in uses:
        F = up.model.InterpretedFunction("F", tm.IntType(), {"v": tm.IntType()}, lambda v: v * v - 2, env)
    g.F = F
    prob = Problem("g", env)
    # fluents the skeleton never mentions are left out when sk["minimal"] is set (compilers reject kinds they do not support:
    # an unused undefined int fluent would put UNDEFINED_INITIAL_NUMERIC into every problem's kind)
    _c = set(sk.get("pre", [])) | set(sk.get("goal", [0])) | set(sk.get("pre2", [])) | {sk.get("effcond", 2), sk.get("effcond2", 0)}
    _e = set(sk["effs"]) | set(sk.get("second_action") or [])
    minimal = sk.get("minimal", False)
    need_u = (not minimal) or bool(_c & {9, 18}) or bool(_e & {11, 17, 18, 19})
    need_st = bool(_c & {15})
    if need_st:
        g.st = Fluent(nm("st"), tm.BoolType(), environment=env, **{nm("x"): T})
        prob.add_fluent(g.st, default_initial_value=True)
    need_w = (not minimal) or bool(_c & {10, 11}) or bool(_e & {7, 14, 21}) or 5 in sk.get("inv", [])
    need_m = bool(_c & {17}) or bool(_e & {22, 23})
    need_n = (not minimal and not need_m) or bool(_c & {4, 5, 9, 13, 14, 18}) or bool(_e & {2, 3, 4, 5, 8, 9, 16, 17}) or 0 in sk.get("inv", [])
    g.has = dict(u=need_u, w=need_w, n=need_n, m=need_m)
    for fl, need in ((b, True), (p, True), (w, need_w), (u, need_u), (n, need_n), (m, need_m)):
        if need:
            prob.add_fluent(fl)
    if need_st and sk.get("st_false_for_o1", True):
        prob.set_initial_value(em.FluentExp(g.st, [em.ObjectExp(o1)]), em.FALSE())  # the only explicit value; the rest is the default
    prob.add_objects(objs)
    g.problem = prob
    rng = sk.get("const_range", (-2, 5))
    consts = {}

    def C(name):
        if name not in consts:
            consts[name] = ctx.int(name, *rng) if is_sym(name) else DEFAULTS[name]
        return consts[name]

    g.C = C

    def cond(i, x):
        """condition template i with x an FNode of type T"""
        if i == 0:
            return em.FluentExp(b)
        if i == 1:
            return em.Not(em.FluentExp(b))
        if i == 2:
            return em.FluentExp(p, [x])
        if i == 3:
            return em.Equals(x, em.ObjectExp(o1))
        if i == 4:
            return em.LT(em.FluentExp(n), em.Int(C("c")))
        if i == 5:
            return em.LE(em.Int(C("c")), em.FluentExp(n))
        if i == 6:
            return em.Or(em.FluentExp(b), em.FluentExp(p, [x]))
        if i == 7:
            y = Variable("y", S, env)
            return em.Exists(em.FluentExp(p, [em.VariableExp(y)]), y)
        if i == 8:
            y = Variable("y", T, env)
            return em.Forall(em.Or(em.FluentExp(p, [em.VariableExp(y)]), em.FluentExp(b)), y)
        if i == 9:
            return em.LE(em.FluentExp(n), em.FluentExp(u))
        if i == 10:
            return em.Equals(em.FluentExp(w, [x]), em.ObjectExp(o1))
        if i == 11:
            return em.FluentExp(p, [em.FluentExp(w, [x])])
        if i == 12:
            return em.Not(em.FluentExp(p, [x]))
        if i == 13:
            return em.LE(em.Plus(em.FluentExp(n), em.Int(1)), em.Int(C("c")))
        if i == 14:
            return em.LT(F(em.FluentExp(n)), em.Int(C("c")))
        if i == 15:
            return em.FluentExp(g.st, [x])
        if i == 16:
            y = Variable("y", T, env)
            return em.Exists(em.FluentExp(p, [em.VariableExp(y)]), y)
        if i == 17:
            return em.LE(em.FluentExp(m, [x]), em.Int(C("c")))
        if i == 18:
            return em.LE(em.FluentExp(u), em.FluentExp(n))
        raise ValueError(i)

    g.cond = cond

    def add_effects(act, x, ids, effcond):
        ec = lambda: cond(effcond, x)  # noqa: E731
        for i in ids:
            if i == 0:
                act.add_effect(em.FluentExp(b), em.FALSE())
            elif i == 1:
                act.add_effect(em.FluentExp(b), em.TRUE(), ec())
            elif i == 2:
                act.add_increase_effect(em.FluentExp(n), em.Int(C("d")))
            elif i == 3:
                act.add_decrease_effect(em.FluentExp(n), em.Int(C("d")))
            elif i == 4:
                act.add_effect(em.FluentExp(n), em.Int(C("c1")))
            elif i == 5:
                act.add_effect(em.FluentExp(n), em.Int(C("c2")), ec())
            elif i == 6:
                y = Variable("y", T, env)
                v = bool(ctx.choice("v6", 2))
                act.add_effect(em.FluentExp(p, [em.VariableExp(y)]), em.Bool(v), forall=[y])
            elif i == 7:
                act.add_effect(em.FluentExp(w, [x]), x)
            elif i == 8:
                act.add_effect(em.FluentExp(n), em.Plus(em.FluentExp(n), em.Int(C("d"))))
            elif i == 9:
                act.add_increase_effect(em.FluentExp(n), em.Int(C("d")), ec())
            elif i == 10:
                act.add_effect(em.FluentExp(p, [x]), em.TRUE())
            elif i == 11:
                act.add_effect(em.FluentExp(u), em.Int(C("c1")))
            elif i == 12:
                act.add_effect(em.FluentExp(b), em.TRUE())
            elif i == 13:
                y = Variable("y", T, env)
                act.add_effect(em.FluentExp(p, [em.VariableExp(y)]), em.FALSE(), em.FluentExp(p, [em.VariableExp(y)]), forall=[y])
            elif i == 14:
                act.add_effect(em.FluentExp(w, [x]), em.ObjectExp(o1), ec())
            elif i == 15:
                act.add_effect(em.FluentExp(p, [x]), em.FALSE())
            elif i == 16:
                act.add_decrease_effect(em.FluentExp(n), em.Int(C("d2")), ec())
            elif i == 17:
                act.add_effect(em.FluentExp(n), em.FluentExp(u))
            elif i == 18:
                act.add_decrease_effect(em.FluentExp(u), em.Int(C("d")))
            elif i == 19:
                act.add_increase_effect(em.FluentExp(u), em.Int(C("d")))
            elif i == 21:
                act.add_effect(em.FluentExp(p, [em.FluentExp(w, [x])]), em.FALSE())
            elif i == 22:
                act.add_increase_effect(em.FluentExp(m, [x]), em.Int(C("d")))
            elif i == 23:
                act.add_decrease_effect(em.FluentExp(m, [x]), em.Int(C("d")))
            elif i == 20:
                y = Variable("y", T, env)
                act.add_effect(em.FluentExp(b), em.TRUE(), em.FluentExp(p, [em.VariableExp(y)]), forall=[y])
            else:
                raise ValueError(i)

    def mk_action(name, pre, effs, effcond):
        act = InstantaneousAction(nm(name), _env=env, **{nm("x"): T})
        x = em.ParameterExp(act.parameter(nm("x")))
        for i in pre:
            act.add_precondition(cond(i, x))
        add_effects(act, x, effs, effcond)
        return act

    g.a = mk_action("a", sk.get("pre", []), sk["effs"], sk.get("effcond", 2))
    prob.add_action(g.a)
    g.actions = [g.a]
    if sk.get("second_action"):
        g.a2 = mk_action("a2", sk.get("pre2", []), sk["second_action"], sk.get("effcond2", 0))
        prob.add_action(g.a2)
        g.actions.append(g.a2)
    for i in sk.get("inv", []):
        if i == 0:
            prob.add_state_invariant(em.LE(em.FluentExp(n), em.Int(C("c3"))))
        elif i == 1:
            prob.add_state_invariant(em.Or(em.FluentExp(b), em.FluentExp(p, [em.ObjectExp(o1)])))
        elif i == 2:
            y = Variable("y", T, env)
            prob.add_state_invariant(em.Forall(em.Or(em.FluentExp(b), em.Not(em.FluentExp(p, [em.VariableExp(y)]))), y))
        elif i == 3:
            prob.add_state_invariant(em.Or(em.FluentExp(p, [em.ObjectExp(o1)]), em.Not(em.FluentExp(p, [em.ObjectExp(o2)]))))
        elif i == 4:
            prob.add_state_invariant(em.Or(em.FluentExp(b), em.Not(em.FluentExp(p, [em.ObjectExp(o2)]))))
        elif i == 5:
            prob.add_state_invariant(em.Not(em.FluentExp(p, [em.FluentExp(w, [em.ObjectExp(o1)])])))
    for i in sk.get("goal", [0]):
        prob.add_goal(cond(i, em.ObjectExp(o1)))
    for i in sk.get("traj", []):
        fb, fp1, fp2 = em.FluentExp(b), em.FluentExp(p, [em.ObjectExp(o1)]), em.FluentExp(p, [em.ObjectExp(o2)])
        tc = {0: lambda: em.Sometime(fb), 1: lambda: em.AtMostOnce(fp1), 2: lambda: em.SometimeBefore(fb, fp1),
              3: lambda: em.SometimeAfter(fp1, fb), 4: lambda: em.Always(em.Or(fb, em.Not(fp2))), 5: lambda: em.Sometime(fp2),
              6: lambda: em.AtMostOnce(fb)}[i]()
        prob.add_trajectory_constraint(tc)
    # initial state: Booleans fork, numerics symbolic; u stays undefined unless asked
    # Boolean initial values fork only for fluents the skeleton mentions (the others are irrelevant to every verdict)
    conds = set(sk.get("pre", [])) | set(sk.get("goal", [0])) | set(sk.get("pre2", []))
    effs = set(sk["effs"]) | set(sk.get("second_action") or [])
    if effs & {1, 5, 9, 14, 16}:
        conds |= {sk.get("effcond", 2)}
    if (set(sk.get("second_action") or [])) & {1, 5, 9, 14, 16}:
        conds |= {sk.get("effcond2", 0)}
    uses_b = bool(conds & {0, 1, 6, 8}) or bool(effs & {0, 1, 12, 20}) or bool({1, 2, 3, 4} & set(sk.get("inv", []))) or sk.get("fork_all")
    uses_p = bool(conds & {2, 6, 7, 8, 11, 12}) or bool(effs & {6, 10, 13, 15, 20, 21}) or bool({1, 2, 3, 4, 5} & set(sk.get("inv", []))) or sk.get("fork_all")
    prob.set_initial_value(em.FluentExp(b), em.Bool(bool(ctx.choice("b0", 2)) if uses_b else False))
    for o in objs:
        prob.set_initial_value(em.FluentExp(p, [em.ObjectExp(o)]), em.Bool(bool(ctx.choice(f"p0_{o.name}", 2)) if uses_p else False))
    wi = sk.get("w_init", "id")
    for o in (objs if need_w else []):
        tgt = o if wi == "id" else objs[ctx.choice(f"w0_{o.name}", len(objs))]
        prob.set_initial_value(em.FluentExp(w, [em.ObjectExp(o)]), em.ObjectExp(tgt))
    g.x0 = (ctx.int("x0", *sk.get("x0_range", (-2, 6))) if is_sym("x0") else DEFAULTS["x0"]) if need_n else None
    if need_m and g.x0 is None:
        g.x0 = ctx.int("x0", *sk.get("x0_range", (-2, 6))) if is_sym("x0") else DEFAULTS["x0"]
    if need_n:
        prob.set_initial_value(em.FluentExp(n), em.Int(g.x0))
    for o in (objs if need_m else []):
        prob.set_initial_value(em.FluentExp(m, [em.ObjectExp(o)]), em.Int(g.x0))
    if need_u and not sk.get("undef_u", True):
        prob.set_initial_value(em.FluentExp(u), em.Int(C("u0")))
    return g


def describe(sk):
    return dict(pre=[COND_NAMES[i] for i in sk.get("pre", [])], effs=[EFF_NAMES[i] for i in sk["effs"]],
                effcond=COND_NAMES[sk.get("effcond", 2)], inv=[INV_NAMES[i] for i in sk.get("inv", [])],
                goal=[COND_NAMES[i] for i in sk.get("goal", [0])], n_bounds=sk.get("n_bounds", "none"),
                second_action=[EFF_NAMES[i] for i in sk.get("second_action") or []], traj=[TRAJ_NAMES[i] for i in sk.get("traj", [])],
                values=sk.get("values"), names=sk.get("names"))


# the fixed quick list: every template at least once, every interesting pair of effects on one fluent.
# `sym` names the leaves that are solver variables in that shard (<= 3: every further symbolic constant multiplies the
# path count through the hash-consing equality forks); the other leaves take DEFAULTS.
_BASE = [
    (dict(pre=[4], effs=[2, 1], effcond=4, n_bounds="both", goal=[0]), [["x0", "d"], ["x0", "c"], ["lb", "ub"], ["d", "ub"]]),
    (dict(pre=[2], effs=[0, 1], effcond=2, inv=[1], goal=[0]), [[]]),                               # add-after-delete + invariant reading b
    (dict(pre=[], effs=[4, 5], effcond=0, goal=[5]), [["c1", "c2"], ["c2", "c"]]),                   # two assignments: conflict iff c1 != c2
    (dict(pre=[1], effs=[2, 9, 3], effcond=6, n_bounds="upper", goal=[4]), [["x0", "d"], ["d", "ub"]]),  # inc/dec accumulate under a bound
    (dict(pre=[6], effs=[6, 10], goal=[7]), [[]]),                                                   # forall effect + assignment on p
    (dict(pre=[3], effs=[7, 12], goal=[10], w_init="any"), [[]]),                                    # object fluent
    (dict(pre=[9], effs=[12], goal=[0]), [["x0"]]),                                                  # undefined read in precondition
    (dict(pre=[], effs=[11, 12], goal=[9]), [["x0", "c1"]]),                                         # defining u then goal reads it
    (dict(pre=[8], effs=[13, 0], goal=[12]), [[]]),                                                  # forall conditional effect
    (dict(pre=[11], effs=[14, 15], effcond=10, goal=[11], w_init="any"), [[]]),                      # nested fluent, conditional object assignment
    # arithmetic nodes over n: n is bounded on both sides (the type checker mixes float("inf") with symbolic bounds otherwise)
    (dict(pre=[13], effs=[8], inv=[0], n_bounds="both", goal=[5]), [["x0", "d"], ["d", "c3"], ["x0", "lb"]]),  # fluent-dependent assignment + invariant
    (dict(pre=[4], effs=[2, 12], n_bounds="lower", goal=[5]), [["x0", "lb"]]),                        # half-bounded type
    (dict(pre=[], effs=[3, 12], n_bounds="upper", goal=[0], values={"x0": -1}), [["d", "ub"]]),       # upper bound around 0, decrease by a negative constant
    (dict(pre=[], effs=[2, 12], n_bounds="lower", goal=[0], values={"x0": 1}), [["d", "lb"]]),        # lower bound around 0, increase by a negative constant
    (dict(pre=[2], effs=[12, 10], goal=[0, 12]), [[]]),                                               # two goals: the second can fail alone
    (dict(pre=[], effs=[6, 0], inv=[1], goal=[0]), [[]]),                                             # a FORALL effect writes a fluent the invariant reads
    (dict(pre=[], effs=[13, 0], inv=[1], goal=[1]), [[]]),
    (dict(pre=[], effs=[6], inv=[1], goal=[1]), [[]]),                                                # ONLY a forall effect touches the invariant's fluents
    (dict(pre=[], effs=[13], inv=[1], goal=[1]), [[]]),
    (dict(pre=[], effs=[13, 12], inv=[2], goal=[0]), [[]]),                                           # quantified invariant, forall effect
    (dict(pre=[], effs=[5, 2], effcond=0, goal=[0]), [["c2", "d"]]),                                 # conditional assignment + increase on one fluent
    (dict(pre=[12], effs=[17, 12], goal=[0]), [["x0"]]),                                             # effect value reads an undefined fluent
    (dict(pre=[], effs=[5, 16, 0], effcond=4, n_bounds="both", goal=[1]), [["x0", "c2"], ["x0", "c"], ["d2", "lb"]]),  # conditional assign + decrease
]
QUICK = [dict(sk, sym=sym) for sk, syms in _BASE for sym in syms]


def thorough_skeletons():
    """all pairs of effect templates x a spread of condition templates as effect condition, 3 symbolic leaves each"""
    import itertools
    out = []
    numeric = {2, 3, 4, 5, 8, 9, 16, 17, 11}
    for e1, e2 in itertools.combinations(range(18), 2):
        for ec in (0, 4, 2):
            if not ({e1, e2} & {1, 5, 9, 14, 16}) and ec != 0:
                continue  # no conditional effect: the effect condition is irrelevant
            nb = "both" if ({e1, e2} & numeric) else "none"
            sym = ["x0"] + [n for n, t in (("d", {2, 3, 8, 9}), ("c1", {4, 11}), ("c2", {5}), ("d2", {16}), ("c", {-1})) if ({e1, e2} & t) or (n == "c" and ec == 4)]
            out.append(dict(pre=[], effs=[e1, e2], effcond=ec, n_bounds=nb, goal=[0], sym=sym[:3], w_init="any" if {e1, e2} & {7, 14} else "id"))
    return out
