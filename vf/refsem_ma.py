"""RefMA: the multi-agent extension of R (vf/refsem.py).

State = environment fluents + per-agent fluents; ground key = ("<owner>.<fluent>", args) with owner "" for the
environment.  An agent's action (and an agent's own goals) read the agent's fluents unqualified and every other
agent's fluents through Dot(agent, fluent(args)); environment fluents are read unqualified by everybody.  An
unqualified fluent in a problem-level goal is an environment fluent or, failing that, the fluent of the only agent
that owns it (the MA disjunctive remover adds such goals).
Everything else (expressions, effects, add-after-delete, bounds) is inherited from Ref through light proxies, so
the step semantics is literally the one C01 ties to the simulator.
"""
import itertools

import z3

from vf.refsem import FALSE, TRUE, Ref, RState, V, _real


class QF:
    """a fluent qualified by its owner"""

    def __init__(self, owner, fluent):
        self.owner, self.fluent = owner, fluent
        self.name = f"{owner}.{fluent.name}"
        self.type = fluent.type
        self.signature = fluent.signature


class _Target:
    def __init__(self, qf, args):
        self._qf, self.args = qf, args

    def fluent(self):
        return self._qf


class _Eff:
    def __init__(self, eff, target):
        self._e, self.fluent = eff, target
        self.condition, self.value, self.forall = eff.condition, eff.value, eff.forall

    def is_forall(self):
        return self._e.is_forall()

    def is_conditional(self):
        return self._e.is_conditional()

    def is_assignment(self):
        return self._e.is_assignment()

    def is_increase(self):
        return self._e.is_increase()


class MAAction:
    """agent + action, with effects whose targets are resolved to qualified fluents"""

    def __init__(self, ref, agent, action):
        self.agent, self.action = agent, action
        self.name = f"{agent.name}.{action.name}"
        self.parameters = action.parameters
        self.preconditions = action.preconditions
        self.effects = []
        for e in action.effects:
            fe = e.fluent
            if fe.is_dot():
                qf = ref.qf(fe.agent(), fe.arg(0).fluent())
                args = fe.arg(0).args
            else:
                qf = ref.resolve(fe.fluent(), agent.name)
                args = fe.args
            self.effects.append(_Eff(e, _Target(qf, args)))


class RefMA(Ref):
    def __init__(self, problem, name=""):
        self.p = problem
        self.name = name
        self.objects = list(problem.all_objects)
        self.oidx = {o.name: i for i, o in enumerate(self.objects)}
        self.if_tables, self._uf = {}, {}
        self.cur = None  # name of the acting agent while an action / agent goal is encoded
        self._qf = {}
        self.ground = []
        owners = [("", list(problem.ma_environment.fluents))] + [(ag.name, list(ag.fluents)) for ag in problem.agents]
        for owner, fls in owners:
            for f in fls:
                q = self._qf[(owner, f.name)] = QF(owner, f)
                doms = [list(problem.objects(p.type)) if p.type.is_user_type() else None for p in f.signature]
                if any(d is None for d in doms):
                    raise NotImplementedError("fluent with non-object parameter")
                for combo in itertools.product(*doms):
                    self.ground.append((self.key(q, combo), q, combo))
        self.gkeys = [k for k, _, _ in self.ground]
        self.ginfo = {k: (f, a) for k, f, a in self.ground}

    # ---- resolution
    def qf(self, owner, fluent):
        try:
            return self._qf[(owner, fluent.name)]
        except KeyError:
            raise NotImplementedError(f"fluent {fluent.name} is not a fluent of '{owner or 'environment'}'")

    def resolve(self, fluent, cur):
        if cur is not None and (cur, fluent.name) in self._qf:
            return self._qf[(cur, fluent.name)]
        if ("", fluent.name) in self._qf:
            return self._qf[("", fluent.name)]
        owners = [o for (o, n) in self._qf if n == fluent.name]
        if len(owners) == 1:
            return self._qf[(owners[0], fluent.name)]
        raise NotImplementedError(f"unqualified fluent {fluent.name} is ambiguous / unknown (acting agent {cur})")

    def expr(self, e, s, b=None):
        if e.is_dot():
            inner = e.arg(0)
            args = [self.expr(a, s, b) for a in inner.args]
            return self.read(s, self.qf(e.agent(), inner.fluent()), args)
        if e.is_fluent_exp():
            args = [self.expr(a, s, b) for a in e.args]
            return self.read(s, self.resolve(e.fluent(), self.cur), args)
        return super().expr(e, s, b)

    # ---- states
    def init_state(self):
        byk = {}
        for fe, val in self.p.initial_values.items():
            if fe.is_dot():
                q, inner = self.qf(fe.agent(), fe.arg(0).fluent()), fe.arg(0)
            else:
                q, inner = self.resolve(fe.fluent(), None), fe
            byk[self.key(q, [a.object() for a in inner.args])] = val
        vals = {}
        for k, f, _a in self.ground:
            if k in byk:
                t = self.const_value(byk[k])
                vals[k] = V(_real(t) if f.type.is_real_type() else t, TRUE)
            else:
                vals[k] = V(z3.Const(f"{self.name}undef.{k}", self.sort_of(f.type)), FALSE)
        return RState(vals)

    def invariants_ok(self, s):
        return TRUE

    # ---- actions, goals
    def ground_actions(self):
        out = []
        for ag in self.p.agents:
            for a in ag.actions:
                ma = MAAction(self, ag, a)
                for objs in self.bindings(ma):
                    out.append((ma, objs))
        return out

    def step(self, s, action, b, invariants=True, bounds=True):
        self.cur = action.agent.name
        try:
            return super().step(s, action, b, invariants=invariants, bounds=bounds)
        finally:
            self.cur = None

    def goal(self, s, agent_goals=True):
        """problem goals and (optionally) every agent's public and private goals"""
        cs = [self.holds(g, s) for g in self.p.goals]
        if agent_goals:
            for ag in self.p.agents:
                self.cur = ag.name
                try:
                    cs += [self.holds(g, s) for g in list(ag.public_goals) + list(ag.private_goals)]
                finally:
                    self.cur = None
        return z3.And(cs) if cs else TRUE
