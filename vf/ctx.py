"""Harness context: the interface a harness uses to obtain its solver variables.

Two implementations:
  * SymCtx   (vf/symctx.py) -- values are CrossHair symbolic proxies backed by z3
    terms; the driver explores every feasible path of the harness.
  * ReplayCtx (here)        -- values come from a recorded counterexample; no
    tracer, no shim, no z3.  Runs in a clean /venv/bin/python process.

A harness is a plain function  h(ctx, **kwargs).  It reports a violation with
ctx.fail(sig, msg) and states a universally quantified claim with ctx.forall().
"""
from fractions import Fraction


class Violation(Exception):
    def __init__(self, sig, msg, extra=None):
        super().__init__(msg)
        self.sig = sig
        self.msg = msg
        self.extra = extra or {}


class HarnessError(Exception):
    pass


class BaseCtx:
    mode = "?"

    # -- solver variables -------------------------------------------------
    def int(self, name, lo=None, hi=None):
        raise NotImplementedError

    def bool(self, name):
        raise NotImplementedError

    def choice(self, name, n):
        """index in [0,n): a solver variable that is branched on (one path per value)."""
        raise NotImplementedError

    def frac(self, name, den, lo=None, hi=None):
        """Fraction(k, den) with k a solver variable, lo <= k <= hi."""
        k = self.int(name, lo, hi)
        return Fraction(k, den)

    def pick(self, name, seq):
        seq = list(seq)
        return seq[self.choice(name, len(seq))]

    def subset(self, name, seq):
        return [x for i, x in enumerate(seq) if self.choice(f"{name}[{i}]", 2)]

    def perm(self, name, seq):
        seq = list(seq)
        out = []
        i = 0
        while seq:
            out.append(seq.pop(self.choice(f"{name}.{i}", len(seq))))
            i += 1
        return out

    # -- bookkeeping ------------------------------------------------------
    def witness(self, tag="w"):
        """The antecedent held on this path and the assertion is really evaluated."""

    def note(self, key, value):
        """Something worth showing in the evidence samples."""

    def assume(self, cond):
        """Prune the path when cond is false (cond may be symbolic)."""
        raise NotImplementedError

    def fail(self, sig, msg, **extra):
        raise Violation(sig, msg, extra)

    def check(self, cond, sig, msg, **extra):
        if not cond:
            self.fail(sig, msg, **extra)

    def require(self, cond, sig, msg):
        """cond: python bool or a non-branched symbolic Boolean (see vf.logic). Must hold for every value."""
        # identity test, not isinstance: under the tracer CrossHair reports a SymbolicBool as an instance of bool
        if cond is True or cond is False:
            if not cond:
                self.fail(sig, msg)
            return
        self.forall(lambda: (_znot(cond), {}), None, sig, msg)

    def feature_set(self, name, free=None, absent=()):
        """A set over ProblemKind's feature universe; sym: one solver Boolean per feature in `free` (default all)."""
        raise NotImplementedError

    def forall(self, build, concrete, sig, msg):
        """Claim: no assignment of the second-stage variables violates the property.

        build():    -> (violation: z3 Bool term, vars: {name: z3 term}); only called in
                    sym mode.  The driver asks the path solver for  PC /and violation.
        concrete(m) -> True iff the violation is REAL, judged by the real code on the
                    concrete model m = {name: python value}; only called on replay.
        """
        raise NotImplementedError

    def fresh_env(self, hashcons="exact"):
        raise NotImplementedError

    def concrete(self, x):
        """Python value of a (possibly symbolic) solver variable; forks in sym mode."""
        return x

    def untraced(self):
        """S6: context manager for set-up code whose inputs are all concrete on this path
        (runs natively in sym mode; a no-op otherwise)."""
        import contextlib

        return contextlib.nullcontext()


def _znot(cond):
    import z3

    return z3.Not(cond.var)


class ReplayCtx(BaseCtx):
    mode = "replay"

    def __init__(self, values, models=None):
        self.values = dict(values)
        self.models = list(models or [])
        self._forall_i = 0
        self.log = []

    def _get(self, name):
        if name not in self.values:
            raise HarnessError(f"replay: no recorded value for {name!r}")
        return self.values[name]

    def int(self, name, lo=None, hi=None):
        v = int(self._get(name))
        return v

    def bool(self, name):
        return bool(self._get(name))

    def choice(self, name, n):
        v = int(self._get(name))
        assert 0 <= v < n
        return v

    def assume(self, cond):
        if not cond:
            raise HarnessError("replay: assumption false on recorded counterexample")

    def forall(self, build, concrete, sig, msg):
        i = self._forall_i
        self._forall_i += 1
        if concrete is None:
            # every solver variable is concrete now: the oracle term has no free first-stage variable left;
            # decide it stand-alone (the real code's verdict inside it was computed without tracer or shim)
            import z3

            viol, _qv = build()
            if isinstance(viol, bool):
                if viol:
                    raise Violation(sig, msg, {})
                return
            s = z3.Solver()
            s.set("timeout", 60000)
            s.add(viol)
            if s.check() == z3.sat:
                raise Violation(sig, msg, {"model": str(s.model())[:500]})
            return
        for m in self.models:
            if m.get("index") == i:
                if concrete(m["model"]):
                    raise Violation(sig, msg, {"model": m["model"]})
                else:
                    self.log.append(f"forall#{i}: recorded model does not violate on real code")

    def feature_set(self, name, free=None, absent=()):
        return set(self._get(name))

    def fresh_env(self, hashcons="exact"):
        from unified_planning.environment import Environment

        return Environment()
