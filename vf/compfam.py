"""The (compiler, problem) program family shared by C06, C07, C08 and C09-A."""
from vf import gen

V1 = dict(x0=1, c=3, d=2, lb=0, ub=4, c1=1, c2=3, c3=4, d2=1, u0=2)
V2 = dict(x0=3, c=2, d=1, lb=0, ub=3, c1=2, c2=2, c3=3, d2=2, u0=0)


def _sk(**kw):
    kw.setdefault("sym", [])
    kw.setdefault("minimal", True)
    kw.setdefault("values", V1)
    return kw


# skeletons that exercise what each compiler removes (+ a plain one); all numeric leaves concrete
FAMILY = {
    "grounder": [
        _sk(pre=[2], effs=[0, 1, 10], effcond=2, goal=[0]),
        _sk(pre=[6], effs=[6, 10], goal=[7]),
        _sk(pre=[3], effs=[7, 12], goal=[10], w_init="any"),
        _sk(pre=[4], effs=[2, 1], effcond=4, n_bounds="both", goal=[0]),
        _sk(pre=[12], effs=[10], goal=[2], second_action=[15, 12], pre2=[2]),
        _sk(pre=[15], effs=[12, 10], goal=[0]),                     # static Boolean fluent with default true prunes groundings
        _sk(pre=[15, 12], effs=[10], goal=[2], three_objects=True),
    ],
    "conditional_effects": [
        _sk(pre=[], effs=[0, 1], effcond=2, goal=[0]),
        _sk(pre=[1], effs=[1, 10], effcond=12, goal=[0]),
        _sk(pre=[], effs=[5, 12], effcond=0, n_bounds="both", goal=[5]),
        _sk(pre=[], effs=[9, 1], effcond=4, n_bounds="both", goal=[0]),
        _sk(pre=[], effs=[13, 12], goal=[12]),
        _sk(pre=[], effs=[14, 15], effcond=10, goal=[12], w_init="any"),
        _sk(pre=[], effs=[0, 1], effcond=2, goal=[0], second_action=[10], pre2=[]),   # a later unconditional action (name clashes with variants)
    ],
    "disjunctive_conditions": [
        _sk(pre=[6], effs=[12, 15], goal=[0]),
        _sk(pre=[6], effs=[10, 0], goal=[6]),
        _sk(pre=[8], effs=[10, 12], goal=[8]),
        _sk(pre=[6, 4], effs=[2, 12], n_bounds="both", goal=[0]),
    ],
    "negative_conditions": [
        _sk(pre=[1], effs=[12], goal=[0]),
        _sk(pre=[12], effs=[10, 0], goal=[1]),
        _sk(pre=[1, 12], effs=[1, 10], effcond=12, goal=[0]),
        _sk(pre=[12], effs=[13, 12], goal=[12]),
    ],
    "quantifiers": [
        _sk(pre=[7], effs=[12], goal=[0]),
        _sk(pre=[8], effs=[10, 0], goal=[7]),
        _sk(pre=[], effs=[6, 12], goal=[8]),
        _sk(pre=[], effs=[13, 10], goal=[7]),
        _sk(pre=[16], effs=[12], goal=[0]),                          # exists over a type with two objects: a real disjunction after expansion
    ],
    "usertype_fluents": [
        _sk(pre=[10], effs=[7, 12], goal=[0], w_init="any"),
        _sk(pre=[11], effs=[14, 10], effcond=0, goal=[10], w_init="any"),
        _sk(pre=[3], effs=[7], goal=[11], w_init="any"),
    ],
    "bounded_types": [
        _sk(pre=[4], effs=[2, 12], n_bounds="both", goal=[0]),
        _sk(pre=[], effs=[2, 9, 3], effcond=6, n_bounds="upper", goal=[5]),
        _sk(pre=[], effs=[4, 12], n_bounds="both", goal=[5], values=dict(V1, c1=9)),
        _sk(pre=[], effs=[3, 12], n_bounds="lower", goal=[0], values=V2),
        _sk(pre=[], effs=[22, 12], n_bounds="both", goal=[0], second_action=[23], pre2=[]),   # bounded fluent WITH a parameter
        _sk(pre=[17], effs=[22], n_bounds="upper", goal=[2], second_action=[10], pre2=[17]),
    ],
    "state_invariants": [
        _sk(pre=[], effs=[0, 1], effcond=2, inv=[1], goal=[0]),
        _sk(pre=[], effs=[2, 12], inv=[0], goal=[0]),
        _sk(pre=[2], effs=[15, 12], inv=[1], goal=[12]),
    ],
    "trajectory_constraints": [
        _sk(pre=[], effs=[12], traj=[0], goal=[0], second_action=[0], pre2=[]),
        _sk(pre=[], effs=[10], traj=[1], goal=[2], second_action=[15], pre2=[]),
        _sk(pre=[], effs=[10, 12], traj=[2], goal=[2], second_action=[12], pre2=[]),
        _sk(pre=[], effs=[10], traj=[3], goal=[2], second_action=[12], pre2=[]),
        _sk(pre=[], effs=[12, 10], traj=[4, 5], goal=[0]),
        _sk(pre=[], effs=[12], traj=[6], goal=[0], second_action=[0], pre2=[]),
        # an action that touches only ONE side of a binary constraint (regression of the other side is the identity)
        _sk(pre=[], effs=[10], traj=[3], goal=[2], second_action=[0], pre2=[]),   # sometime-after(p(o1), b); a2 only deletes b
        _sk(pre=[], effs=[10], traj=[2], goal=[0], second_action=[12], pre2=[]),  # sometime-before(b, p(o1)); a only adds p, a2 only adds b
        _sk(pre=[], effs=[10], traj=[4], goal=[2], second_action=[0], pre2=[]),   # always(b or not p(o2)); a2 only deletes b
    ],
    "undefined_initial_numeric": [
        _sk(pre=[], effs=[11, 12], goal=[9]),
        _sk(pre=[9], effs=[12], goal=[0]),
        _sk(pre=[], effs=[17, 12], goal=[0]),
        _sk(pre=[], effs=[11], goal=[9], second_action=[12], pre2=[9]),
        _sk(pre=[], effs=[18, 12], goal=[0]),                        # decrease / increase of a fluent that has no value yet
        _sk(pre=[], effs=[19, 12], goal=[0], second_action=[11], pre2=[]),
    ],
}


def compiler(name):
    from unified_planning.engines import CompilationKind as K
    from unified_planning.engines import compilers as C
    from unified_planning.engines.compilers.usertype_fluents_remover import UsertypeFluentsRemover

    return {
        "grounder": (C.Grounder, K.GROUNDING),
        "conditional_effects": (C.ConditionalEffectsRemover, K.CONDITIONAL_EFFECTS_REMOVING),
        "disjunctive_conditions": (C.DisjunctiveConditionsRemover, K.DISJUNCTIVE_CONDITIONS_REMOVING),
        "negative_conditions": (C.NegativeConditionsRemover, K.NEGATIVE_CONDITIONS_REMOVING),
        "quantifiers": (C.QuantifiersRemover, K.QUANTIFIERS_REMOVING),
        "usertype_fluents": (UsertypeFluentsRemover, K.USERTYPE_FLUENTS_REMOVING),
        "bounded_types": (C.BoundedTypesRemover, K.BOUNDED_TYPES_REMOVING),
        "state_invariants": (C.StateInvariantsRemover, K.STATE_INVARIANTS_REMOVING),
        "trajectory_constraints": (C.TrajectoryConstraintsRemover, K.TRAJECTORY_CONSTRAINTS_REMOVING),
        "undefined_initial_numeric": (C.UndefinedInitialNumericRemover, K.UNDEFINED_INITIAL_NUMERIC_REMOVING),
    }[name]


PIPELINES = {
    "quant+cond+disj": ["quantifiers", "conditional_effects", "disjunctive_conditions"],
    "neg+ground": ["negative_conditions", "grounder"],
    "inv+bounded": ["state_invariants", "bounded_types"],
}
PIPELINE_FAMILY = {
    "quant+cond+disj": [_sk(pre=[6], effs=[13, 1], effcond=7, goal=[8]), _sk(pre=[8], effs=[6, 1], effcond=2, goal=[0])],
    "neg+ground": [_sk(pre=[12], effs=[10, 0], goal=[1]), _sk(pre=[1], effs=[1, 10], effcond=12, goal=[0])],
    "inv+bounded": [_sk(pre=[], effs=[2, 12], inv=[0], n_bounds="both", goal=[0])],
}


class Rejected(Exception):
    """documented rejection (UPProblemDefinitionError) or unsupported kind: outside the property's domain"""


def compile_or_prune(ctx, name, problem, own_crashes=False):
    """C06/C07/C09 use the compiled problem; a compiler crash is C08's subject and only pruned here."""
    from unified_planning.exceptions import UPProblemDefinitionError

    try:
        res = run_compiler(name, problem)
    except UPProblemDefinitionError as e:
        if own_crashes and "already defined" in str(e):
            raise  # a name clash produced by the compiler itself is not a documented rejection of the input (C08)
        ctx.witness("documented-rejection")
        ctx.assume(False)
    except Exception:
        if own_crashes:
            raise
        ctx.witness("compile-crashed-see-C08")
        ctx.assume(False)
    if res is None:
        ctx.assume(False)
    return res


def run_compiler(name, problem):
    """-> CompilerResult or None when the compiler does not support the problem's kind (outside the property's domain)."""
    from unified_planning.engines.compilers import CompilersPipeline

    if name in PIPELINES:
        comps = []
        kinds = []
        for n in PIPELINES[name]:
            cls, kind = compiler(n)
            comps.append(cls())
            kinds.append(kind)
        pk = problem.kind
        for c, kind in zip(comps, kinds):
            if not c.supports(pk):
                return None
            pk = c.resulting_problem_kind(pk, kind)
        pipe = CompilersPipeline(comps)
        return pipe.compile(problem)
    cls, kind = compiler(name)
    c = cls()
    if not c.supports(problem.kind):
        return None
    return c.compile(problem, kind)


def programs(tier):
    out = []
    for name, sks in FAMILY.items():
        for i, sk in enumerate(sks):
            out.append((name, i, sk))
    for name, sks in PIPELINE_FAMILY.items():
        for i, sk in enumerate(sks):
            out.append((name, i, sk))
    return out
