"""E1s: SymFeatureSet -- a symbolic set over the finite feature universe of ProblemKind.

One z3 Bool per feature.  Implements the part of the `set` API that ProblemKind,
problem_kind_versioning, resulting_problem_kind and `supports` use.  Predicates return
CrossHair SymbolicBools so the real code forks only where *it* branches.
Iteration forks on the membership of every feature whose bit is not already decided,
so it is only affordable when the free bits are restricted to a small sub-universe.
"""
import builtins

import z3
from crosshair.libimpl.builtinslib import SymbolicBool, SymbolicInt
from crosshair.statespace import context_statespace
from crosshair.tracers import NoTracing

from unified_planning.model import problem_kind as pkmod

UNIV = sorted(pkmod.all_features)


def _sb(e):
    e = z3.simplify(e)
    if z3.is_true(e):
        return True
    if z3.is_false(e):
        return False
    return SymbolicBool(e)


class SymFeatureSet:
    def __init__(self, bits):
        self.bits = bits  # name -> z3 Bool

    @classmethod
    def fresh(cls, tag, free=None):
        """All features free (free=None) or only those in `free`; the others absent."""
        with NoTracing():
            sp = context_statespace()
            u = sp.uniq()
            return cls({f: (z3.Bool(f"{tag}_{f}{u}") if free is None or f in free else z3.BoolVal(False)) for f in UNIV})

    @classmethod
    def const(cls, names):
        with NoTracing():
            names = builtins.set(names)
            return cls({f: z3.BoolVal(f in names) for f in UNIV})

    def _coerce(self, o):
        return o if isinstance(o, SymFeatureSet) else SymFeatureSet.const(o)

    def copy(self):
        with NoTracing():
            return SymFeatureSet(dict(self.bits))

    def __contains__(self, f):
        with NoTracing():
            r = _sb(self.bits[f]) if f in self.bits else False
        return r if isinstance(r, bool) else bool(r)  # bool() of a SymbolicBool forks (under tracing)

    def add(self, f):
        with NoTracing():
            self.bits[f] = z3.BoolVal(True)

    def discard(self, f):
        with NoTracing():
            self.bits[f] = z3.BoolVal(False)

    def update(self, o):
        with NoTracing():
            o = self._coerce(o)
            self.bits = {f: z3.Or(self.bits[f], o.bits[f]) for f in UNIV}

    def difference_update(self, o):
        with NoTracing():
            o = self._coerce(o)
            self.bits = {f: z3.And(self.bits[f], z3.Not(o.bits[f])) for f in UNIV}

    def intersection_update(self, o):
        with NoTracing():
            o = self._coerce(o)
            self.bits = {f: z3.And(self.bits[f], o.bits[f]) for f in UNIV}

    def intersection(self, o):
        with NoTracing():
            o = self._coerce(o)
            return SymFeatureSet({f: z3.And(self.bits[f], o.bits[f]) for f in UNIV})

    def union(self, o):
        with NoTracing():
            o = self._coerce(o)
            return SymFeatureSet({f: z3.Or(self.bits[f], o.bits[f]) for f in UNIV})

    def difference(self, o):
        with NoTracing():
            o = self._coerce(o)
            return SymFeatureSet({f: z3.And(self.bits[f], z3.Not(o.bits[f])) for f in UNIV})

    __and__ = intersection
    __or__ = union
    __sub__ = difference

    def issubset(self, o):
        with NoTracing():
            o = self._coerce(o)
            return _sb(z3.And([z3.Implies(self.bits[f], o.bits[f]) for f in UNIV]))

    def issuperset(self, o):
        return self._coerce(o).issubset(self)

    def __le__(self, o):
        return self.issubset(o)

    def __ge__(self, o):
        return self.issuperset(o)

    def __eq__(self, o):
        with NoTracing():
            if not isinstance(o, (SymFeatureSet, builtins.set, frozenset)):
                return False
            o = self._coerce(o)
            return _sb(z3.And([self.bits[f] == o.bits[f] for f in UNIV]))

    def __ne__(self, o):
        r = self.__eq__(o)
        with NoTracing():
            return (not r) if isinstance(r, bool) else SymbolicBool(z3.Not(r.var))

    __hash__ = None

    def count(self):
        with NoTracing():
            return SymbolicInt(z3.Sum([z3.If(self.bits[f], 1, 0) for f in UNIV]))

    def __len__(self):
        return self.count()

    def __bool__(self):
        with NoTracing():
            r = _sb(z3.Or([self.bits[f] for f in UNIV]))
        return r if isinstance(r, bool) else bool(r)

    def __iter__(self):
        for f in UNIV:
            if f in self:  # forks on undecided bits
                yield f

    def term(self, f):
        return self.bits[f]

    def undecided(self):
        with NoTracing():
            n = 0
            for t in self.bits.values():
                t = z3.simplify(t)
                if not (z3.is_true(t) or z3.is_false(t)):
                    n += 1
            return n


def zbool(b):
    """z3 term of a python bool / SymbolicBool (call under NoTracing)."""
    if isinstance(b, bool):
        return z3.BoolVal(b)
    return b.var


_orig_set = builtins.set


def _set_keeping_sym(it=()):
    if isinstance(it, SymFeatureSet):
        return it.copy()
    return _orig_set(it)


_installed = False


def install():
    """ProblemKind.__init__ does set(features): keep a SymFeatureSet symbolic (copy), as a module-level name.
    For sets with many undecided bits the constructor's per-feature assertion loops are replaced by the
    equivalent single solver check (no feature newer than the declared version is present)."""
    global _installed
    if _installed:
        return
    _installed = True
    pkmod.set = _set_keeping_sym
    from unified_planning.model.problem_kind_versioning import FEATURES_VERSIONS

    PK = pkmod.ProblemKind
    orig_init = PK.__init__

    def __init__(self, features=None, version=None):
        if isinstance(features, SymFeatureSet) and features.undecided() > 10:
            self._features = features.copy()
            self._version = version
            if version is not None:
                assert version > 0 and isinstance(version, int)
                with NoTracing():
                    ok = _sb(z3.And([z3.Not(features.bits[f]) for f, (added, _d) in FEATURES_VERSIONS.items() if added > version]))
                assert ok, "ProblemKind's declared version is older than one of its features"
        else:
            orig_init(self, features, version)

    PK.__init__ = __init__


def kind_of(s, version):
    from unified_planning.model.problem_kind import ProblemKind

    k = ProblemKind(version=version)
    k._features = s
    return k
