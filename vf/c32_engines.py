"""Stub engines for the C32 harness (never solve anything).  The offline registry has no planner, anytime planner,
repairer, portfolio or action selector, so the optimality / anytime / plan-kind branches of the factory would only
ever be exercised with an empty candidate list.  These classes are registered through the REAL Factory.add_engine
(which also builds the real meta engines Replanner[...], OversubscriptionPlanner[...], InterpretedFunctionsPlanner[...]
over the compatible ones).  Their `supports` is `problem_kind <= supported_kind()` like every built-in engine."""
from unified_planning.engines.engine import Engine
from unified_planning.engines.mixins.action_selector import ActionSelectorMixin
from unified_planning.engines.mixins.anytime_planner import AnytimeGuarantee, AnytimePlannerMixin
from unified_planning.engines.mixins.compiler import CompilationKind, CompilerMixin
from unified_planning.engines.mixins.oneshot_planner import OneshotPlannerMixin, OptimalityGuarantee
from unified_planning.engines.mixins.plan_repairer import PlanRepairerMixin
from unified_planning.engines.mixins.plan_validator import PlanValidatorMixin
from unified_planning.engines.mixins.portfolio import PortfolioSelectorMixin
from unified_planning.model.problem_kind import ProblemKind
from unified_planning.plans import PlanKind

CLASSICAL = ["ACTION_BASED", "FLAT_TYPING", "HIERARCHICAL_TYPING", "NEGATIVE_CONDITIONS", "DISJUNCTIVE_CONDITIONS", "EQUALITIES"]


def _kind(features):
    return ProblemKind(features, version=3)


def _km(feats):
    """(supported_kind, supports) static methods for a class body, as the Engine interface demands."""
    feats = list(feats)

    def supported_kind():
        return _kind(feats)

    def supports(problem_kind):
        return problem_kind <= _kind(feats)

    return staticmethod(supported_kind), staticmethod(supports)


class _Stub(Engine):

    def __init__(self, **kwargs):
        Engine.__init__(self)
        self.kwargs = kwargs

    @property
    def name(self):
        return type(self).__name__


class _Oneshot(_Stub, OneshotPlannerMixin):
    def __init__(self, **kwargs):
        _Stub.__init__(self, **kwargs)
        OneshotPlannerMixin.__init__(self)

    def _solve(self, problem, heuristic=None, timeout=None, output_stream=None):
        raise NotImplementedError


class StubSat(_Oneshot):
    """satisficing planner, broad kind"""
    FEATURES = CLASSICAL + ["CONDITIONAL_EFFECTS", "EXISTENTIAL_CONDITIONS", "UNIVERSAL_CONDITIONS", "ACTIONS_COST", "INT_NUMBERS_IN_ACTIONS_COST",
                            "SIMPLE_NUMERIC_PLANNING", "INT_FLUENTS", "INCREASE_EFFECTS", "DECREASE_EFFECTS"]
    supported_kind, supports = _km(FEATURES)

    @staticmethod
    def satisfies(optimality_guarantee):
        return optimality_guarantee == OptimalityGuarantee.SATISFICING


class StubOpt(_Oneshot):
    """optimal planner, narrow kind"""
    FEATURES = CLASSICAL + ["ACTIONS_COST", "INT_NUMBERS_IN_ACTIONS_COST", "PLAN_LENGTH", "CONDITIONAL_EFFECTS"]
    supported_kind, supports = _km(FEATURES)

    @staticmethod
    def satisfies(optimality_guarantee):
        return True


class StubTemporal(_Oneshot):
    """satisficing temporal planner that says nothing about guarantees (inherits OneshotPlannerMixin.satisfies == False)"""
    FEATURES = CLASSICAL + ["CONTINUOUS_TIME", "INT_TYPE_DURATIONS", "REAL_TYPE_DURATIONS", "TIMED_EFFECTS", "TIMED_GOALS", "DURATION_INEQUALITIES", "MAKESPAN"]
    supported_kind, supports = _km(FEATURES)


class _Anytime(_Stub, AnytimePlannerMixin):
    def __init__(self, **kwargs):
        _Stub.__init__(self, **kwargs)
        AnytimePlannerMixin.__init__(self)

    def _get_solutions(self, problem, timeout=None, output_stream=None):
        raise NotImplementedError


class StubAnyInc(_Anytime):
    FEATURES = CLASSICAL + ["ACTIONS_COST", "INT_NUMBERS_IN_ACTIONS_COST", "CONDITIONAL_EFFECTS", "SIMPLE_NUMERIC_PLANNING", "INT_FLUENTS", "INCREASE_EFFECTS"]
    supported_kind, supports = _km(FEATURES)

    @staticmethod
    def ensures(anytime_guarantee):
        return anytime_guarantee == AnytimeGuarantee.INCREASING_QUALITY


class StubAnyOpt(_Anytime):
    FEATURES = CLASSICAL + ["ACTIONS_COST", "INT_NUMBERS_IN_ACTIONS_COST", "PLAN_LENGTH"]
    supported_kind, supports = _km(FEATURES)

    @staticmethod
    def ensures(anytime_guarantee):
        return anytime_guarantee == AnytimeGuarantee.OPTIMAL_PLANS


class StubAnyPlain(_Anytime):
    """no guarantee at all (inherits AnytimePlannerMixin.ensures == False)"""
    FEATURES = CLASSICAL + ["CONDITIONAL_EFFECTS", "EXISTENTIAL_CONDITIONS", "UNIVERSAL_CONDITIONS", "ACTIONS_COST"]
    supported_kind, supports = _km(FEATURES)


class _Repairer(_Stub, PlanRepairerMixin):
    def __init__(self, **kwargs):
        _Stub.__init__(self, **kwargs)
        PlanRepairerMixin.__init__(self)

    def _repair(self, problem, plan):
        raise NotImplementedError


class StubRepairSeq(_Repairer):
    FEATURES = CLASSICAL + ["CONDITIONAL_EFFECTS", "ACTIONS_COST", "INT_NUMBERS_IN_ACTIONS_COST"]
    supported_kind, supports = _km(FEATURES)

    @staticmethod
    def supports_plan(plan_kind):
        return plan_kind == PlanKind.SEQUENTIAL_PLAN

    @staticmethod
    def satisfies(optimality_guarantee):
        return optimality_guarantee == OptimalityGuarantee.SATISFICING


class StubRepairAny(_Repairer):
    FEATURES = CLASSICAL + ["CONTINUOUS_TIME", "INT_TYPE_DURATIONS", "ACTIONS_COST"]
    supported_kind, supports = _km(FEATURES)

    @staticmethod
    def supports_plan(plan_kind):
        return plan_kind in (PlanKind.SEQUENTIAL_PLAN, PlanKind.TIME_TRIGGERED_PLAN)

    @staticmethod
    def satisfies(optimality_guarantee):
        return True


class _Portfolio(_Stub, PortfolioSelectorMixin):
    def __init__(self, **kwargs):
        _Stub.__init__(self, **kwargs)
        PortfolioSelectorMixin.__init__(self)

    def _get_best_oneshot_planners(self, problem, max_planners=None):
        raise NotImplementedError


class StubPortfolio(_Portfolio):
    FEATURES = CLASSICAL + ["CONDITIONAL_EFFECTS", "ACTIONS_COST"]
    supported_kind, supports = _km(FEATURES)

    @staticmethod
    def satisfies(optimality_guarantee):
        return optimality_guarantee == OptimalityGuarantee.SATISFICING


class StubPortfolioNarrow(_Portfolio):
    FEATURES = CLASSICAL + ["ACTIONS_COST", "PLAN_LENGTH"]
    supported_kind, supports = _km(FEATURES)

    @staticmethod
    def satisfies(optimality_guarantee):
        return True


class _Validator(_Stub, PlanValidatorMixin):
    def _validate(self, problem, plan):
        raise NotImplementedError


class StubPOValidator(_Validator):
    FEATURES = CLASSICAL + ["CONDITIONAL_EFFECTS", "EXISTENTIAL_CONDITIONS"]
    supported_kind, supports = _km(FEATURES)

    @staticmethod
    def supports_plan(plan_kind):
        return plan_kind in (PlanKind.PARTIAL_ORDER_PLAN, PlanKind.SEQUENTIAL_PLAN)


class _Selector(_Stub, ActionSelectorMixin):
    def __init__(self, problem=None, error_on_failed_checks=True, **kwargs):
        _Stub.__init__(self, **kwargs)
        self._problem = problem

    def _get_action(self):
        raise NotImplementedError

    def _update(self, observation):
        raise NotImplementedError


class StubSelector(_Selector):
    FEATURES = CLASSICAL + ["CONDITIONAL_EFFECTS", "CONTINGENT"]
    supported_kind, supports = _km(FEATURES)


class StubSelectorNarrow(_Selector):
    FEATURES = CLASSICAL
    supported_kind, supports = _km(FEATURES)


class _Compiler(_Stub, CompilerMixin):
    def __init__(self, **kwargs):
        _Stub.__init__(self, **kwargs)
        CompilerMixin.__init__(self)

    def _compile(self, problem, compilation_kind):
        raise NotImplementedError


class StubGrounder(_Compiler):
    """a second grounder with a narrow kind that also claims MA_CENTRALIZATION; declares its output honestly (unchanged kind)"""
    FEATURES = CLASSICAL + ["CONDITIONAL_EFFECTS", "ACTION_BASED_MULTI_AGENT"]
    supported_kind, supports = _km(FEATURES)

    @staticmethod
    def supports_compilation(compilation_kind):
        return compilation_kind in (CompilationKind.GROUNDING, CompilationKind.MA_CENTRALIZATION)

    @staticmethod
    def resulting_problem_kind(problem_kind, compilation_kind=None):
        k = problem_kind.clone()
        if compilation_kind == CompilationKind.MA_CENTRALIZATION and k.has_action_based_multi_agent():
            k.unset_problem_class("ACTION_BASED_MULTI_AGENT")
            k.set_problem_class("ACTION_BASED")
        return k


STUBS = [
    ("stub-sat", "StubSat"), ("stub-opt", "StubOpt"), ("stub-temporal", "StubTemporal"),
    ("stub-any-inc", "StubAnyInc"), ("stub-any-opt", "StubAnyOpt"), ("stub-any-plain", "StubAnyPlain"),
    ("stub-repair-seq", "StubRepairSeq"), ("stub-repair-any", "StubRepairAny"),
    ("stub-portfolio", "StubPortfolio"), ("stub-portfolio-narrow", "StubPortfolioNarrow"),
    ("stub-po-validator", "StubPOValidator"), ("stub-selector", "StubSelector"), ("stub-selector-narrow", "StubSelectorNarrow"),
    ("stub-grounder", "StubGrounder"),
]


def register(factory):
    """Adds the stubs through the public API (Factory.add_engine also instantiates the compatible meta engines)."""
    for name, cls in STUBS:
        factory.add_engine(name, "vf.c32_engines", cls)
