"""Choice-only driver: DFS over the harness's choice variables by re-execution, with
second-stage queries sent to a stand-alone z3 solver.  Used where every solver
variable of the *first* stage is structural (translation validation: the real
compiler / reader / writer runs concretely on each member of the bounded family and
the solver decides the property of its output over all states / plans).  No tracer.
"""
import time
import traceback
from collections import Counter
from time import process_time

import z3

from vf.ctx import BaseCtx, HarnessError, Violation
from vf.symctx import SOLVER, _classify_exception, z3_to_py


class Prune(Exception):
    pass


class DirectCtx(BaseCtx):
    mode = "direct"

    def __init__(self, prefix, query_timeout_ms):
        self.prefix = prefix
        self.trail = []  # (value, n)
        self.vars = {}
        self.witnesses = Counter()
        self.notes = {}
        self.forall_count = 0
        self.forall_unknown = 0
        self.query_timeout_ms = query_timeout_ms

    def choice(self, name, n):
        if n <= 1:
            self.vars[name] = 0
            return 0
        i = len(self.trail)
        v = self.prefix[i] if i < len(self.prefix) else 0
        self.trail.append((v, n))
        self.vars[name] = v
        return v

    def int(self, name, lo=None, hi=None):
        raise HarnessError("direct engine has no symbolic numerics; use the symex engine")

    def bool(self, name):
        return bool(self.choice(name, 2))

    def assume(self, cond):
        if not cond:
            raise Prune()

    def witness(self, tag="w"):
        self.witnesses[tag] += 1

    def note(self, key, value):
        self.notes[key] = value

    def fresh_env(self, hashcons="exact"):
        from unified_planning.environment import Environment

        return Environment()

    def solver(self):
        s = z3.Solver()
        s.set("timeout", self.query_timeout_ms)
        return s

    def forall(self, build, concrete, sig, msg):
        index = self.forall_count
        self.forall_count += 1
        viol, qvars = build()
        if isinstance(viol, bool):
            if not viol:
                return
            viol = z3.BoolVal(True)
        s = self.solver()
        s.add(viol)
        r = s.check()
        if r == z3.unsat:
            return
        if r == z3.unknown:
            self.forall_unknown += 1
            return
        model = s.model()
        m = {k: z3_to_py(model.eval(t, model_completion=True)) for k, t in qvars.items()}
        raise Violation(sig, msg, {"_values": dict(self.vars), "_models": [{"index": index, "model": m}]})


def _next_prefix(trail):
    t = list(trail)
    while t:
        v, n = t[-1]
        if v + 1 < n:
            return [x for x, _ in t[:-1]] + [v + 1]
        t.pop()
    return None


def explore_direct(fn, kwargs=None, budget_s=120.0, query_timeout_ms=30000, max_violations=4, samples=3):
    kwargs = kwargs or {}
    t0 = process_time()
    w0 = time.time()
    q0 = dict(SOLVER)
    res = dict(paths=0, ok=0, unknown=0, ignored=0, exhausted=False, violations=[], crashes=[],
               witnesses=Counter(), samples=[], forall_queries=0, error=None, decisions=0)
    seen = set()
    prefix = []
    while True:
        if process_time() - t0 > budget_s:  # CPU budget, like the symex driver (wall time is meaningless on a shared machine)
            break
        ctx = DirectCtx(prefix, query_timeout_ms)
        status = "ok"
        try:
            fn(ctx, **kwargs)
            res["ok"] += 1
        except Prune:
            status = "ignored"
            res["ignored"] += 1
        except Violation as v:
            status = "violation"
            extra = dict(v.extra)
            values = extra.pop("_values", None) or dict(ctx.vars)
            models = extra.pop("_models", [])
            if v.sig not in seen and len(res["violations"]) < max_violations:
                seen.add(v.sig)
                res["violations"].append(dict(sig=v.sig, msg=str(v.msg), values=values, models=models,
                                              extra={k: repr(x) for k, x in extra.items()}))
        except HarnessError as e:
            res["error"] = "".join(traceback.format_exception(type(e), e, e.__traceback__)[-8:])
            break
        except Exception as e:
            status = "crash"
            where, loc = _classify_exception(e, e.__traceback__)
            sig = f"exc:{type(e).__name__}@{loc}"
            tb = "".join(traceback.format_exception(type(e), e, e.__traceback__)[-8:])
            if sig not in seen and len(res["crashes"]) < max_violations:
                seen.add(sig)
                res["crashes"].append(dict(sig=sig, where=where, msg=f"{type(e).__name__}: {e}"[:500],
                                           values=dict(ctx.vars), models=[], trace=tb[-3000:]))
        res["paths"] += 1
        res["unknown"] += ctx.forall_unknown
        res["witnesses"].update(ctx.witnesses)
        res["forall_queries"] += ctx.forall_count
        res["decisions"] += len(ctx.trail)
        if len(res["samples"]) < samples and (ctx.witnesses or res["paths"] <= samples):
            res["samples"].append(dict(path=res["paths"], status=status, vars=dict(ctx.vars), notes=dict(ctx.notes),
                                       witnesses=dict(ctx.witnesses)))
        prefix = _next_prefix(ctx.trail)
        if prefix is None:
            res["exhausted"] = True
            break
    res["cpu_s"] = round(process_time() - t0, 3)
    res["solver_queries"] = SOLVER["queries"] - q0["queries"]
    res["solver_s"] = round(SOLVER["seconds"] - q0["seconds"], 3)
    res["solver_unknown"] = SOLVER["unknown"] - q0["unknown"]
    res["realizations"] = {}
    res["witnesses"] = dict(res["witnesses"])
    return res
