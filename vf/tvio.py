"""Shared machinery of the reader/writer translation-validation harnesses (C18, C19, C21).

  * a parametrised variant of the skeleton family G (vf/gen.py): the same condition / effect templates, but every
    identifier comes from a naming scheme and every numeric leaf from a constant pool, and the fragment is selectable
    (PDDL: no object-valued fluents, no type bounds, no invariants; ANML: all of them);
  * AlignedRef: R (vf/refsem.py) over the re-read problem P' with its object indices aligned to those of P under the
    renaming rho, so that one z3 state term serves both sides;
  * bisim(): the one-step bisimulation query over all states reachable within k steps (BMC on P, both sides stepped
    from the SAME state terms), and slot_violation(): the same comparison for one timed slot of a durative action
    (conditions / effects at one time point read as an instantaneous transition from an arbitrary state);
  * concrete comparisons (objects, types, initial state) and plan extraction from a BMC model.

Nothing here touches /repo; z3 terms are only built by the functions that are called from ctx.forall builders or
from the plan search (direct engine: no tracer is active anyway).
"""
import contextlib
import itertools
from fractions import Fraction

CONST_POOL = [0, 1, -3, Fraction(5, 2), Fraction(1, 8), 10 ** 9 + 1]
CONST_POOL_DEC = CONST_POOL + [Fraction(3, 10)]                      # + a finite decimal that is not a binary fraction
CONST_POOL_THOROUGH = CONST_POOL_DEC + [Fraction(-7, 4), Fraction(1, 1024), 10 ** 10 + 1, 2]
LEAVES = ["x0", "c", "d", "c1", "c2", "d2", "u0", "k1", "c3", "t1", "t2"]

ROLES = ["T", "S", "o1", "o2", "o3", "b", "p", "n", "u", "w", "a", "a2", "x", "y", "z", "prob"]


def _scheme(*names):
    assert len(names) == len(ROLES), (len(names), len(ROLES))
    return dict(zip(ROLES, names))


# naming schemes: one adversarial identifier per role.  'assign' (PDDL) and identifiers with an INNER symbol (ANML) are
# deliberately absent from the general schemes: both are recorded findings of C38 (keyword table / unanchored regex);
# the inner-symbol scheme is run for PDDL only (and for ANML in one shard that documents the C38 finding again).
SCHEMES = dict(
    plain=_scheme("T", "S", "o1", "o2", "o3", "b", "p", "n", "u", "w", "a", "a2", "x", "y", "z", "g"),
    upper=_scheme("Loc", "SubLoc", "O1", "O2", "O3", "B", "P", "N", "U", "W", "Act", "ACT2", "X", "Y", "Z", "Prob"),
    pkw=_scheme("either", "number", "and", "or", "not", "when", "forall", "increase", "minimize", "decrease", "exists",
                "imply", "define", "domain", "problem", "objects"),
    pkw_t=_scheme("at", "over", "start", "end", "all", "duration", "condition", "effect", "total-time", "scale-up",
                  "durative-action", "action", "precondition", "parameters", "init", "goal"),
    akw=_scheme("type", "instance", "start", "end", "all", "fluent", "action", "duration", "integer", "constant",
                "forall", "when", "boolean", "float", "exists", "goal"),
    digit=_scheme("1t", "2s", "3o", "4o", "5o", "6b", "7p", "8n", "9u", "0w", "1a", "2a", "3x", "4y", "5z", "6g"),
    lsym=_scheme("$t", ".s", "#o", "@o", "!o", "%b", "&p", "*n", "+u", "=w", "~a", "^a", "(x", ")y", "'z", "?g"),
    isym=_scheme("t.1", "s 2", "o$1", "o-2", "o?3", "b!", "p p", "n#", "u:u", "w;w", "a(b)", "a)c(", "x y", "y'", "z~", "g g"),
    collide=_scheme("Ty", "TY", "obj", "OBJ", "Obj", "Fl", "fl", "FL", "fl_0", "fl_1", "act", "ACT", "Px", "px", "PX", "Ty_0"),
    acollide=_scheme("$t", "_t", "$o", "_o", "o__o", "%f", "_f", "f__f", "f__f_0", "f___f", "$a", "a__a", "$x", "_x", "p__x", "g"),
)


def leaf_values(cv, pool, int_pool=None, tie=False):
    """constant assignment number cv: leaf i takes pool[(cv+i) % len]; leaves that are assigned to an int-typed fluent
    take the integer sub-pool when one is given.  tie: the comparison constants equal the initial value / the assigned
    values (c = c3 = x0, c2 = c1 + d), so that the boundary of every numeric comparison is a reachable state."""
    out = {}
    for i, leaf in enumerate(LEAVES):
        pl = pool
        if int_pool is not None and leaf in ("x0", "d", "c1", "c2", "d2", "u0"):
            pl = int_pool
        out[leaf] = pl[(cv + i) % len(pl)]
    if tie:
        out["c"] = out["c3"] = out["x0"]
        out["u0"] = out["x0"]
    return out


INIT_PATTERNS = [(False, False, False, False), (True, True, False, False), (False, False, True, True), (True, False, True, False)]

COND_NAMES = {
    0: "b", 1: "not b", 2: "p(x)", 3: "x == o1", 4: "n < c", 5: "c <= n", 6: "b or p(x)", 7: "exists y:S. p(y)",
    8: "forall y:T. p(y) or b", 9: "n <= u (u undefined)", 10: "w(x) == o1", 11: "p(w(x))", 12: "not p(x)", 13: "n + 1 <= c",
    15: "c - n < n / 4", 16: "b implies p(x)", 17: "b iff p(x)", 18: "n - u <= c * (n + 2)", 19: "exists y:T. (not y == x) and p(y)",
    20: "forall y:T. p(y) implies exists z:S. p(z) and not z == y", 21: "(b and (p(x) or (not b and p(o1)))) or (p(o2) and not p(x))",
    22: "n - c > d - n  (GT, operands both compound)",
}
EFF_NAMES = {
    0: "b := false", 1: "when C: b := true", 2: "n += d", 3: "n -= d", 4: "n := c1", 5: "when C: n := c2",
    6: "forall y:T. p(y) := v", 7: "w(x) := x", 8: "n := n + d", 9: "when C: n += d", 10: "p(x) := true", 11: "u := c1",
    12: "b := true", 13: "forall y:T. when p(y): p(y) := false", 14: "when C: w(x) := o1", 15: "p(x) := false",
    16: "when C: n -= d2", 17: "n := u", 18: "n := c1 - n", 19: "n := (c1 - n) / 4", 20: "forall y:S. when not (y == x): p(y) := true",
    21: "n += u - n * 2", 22: "forall y:T. when C(y): p(y) := true   (C over the quantified variable)",
}


class G:
    pass


def build(ctx, env, sk, names, vals, init):
    """-> G with .problem and handles.  Model-building calls the library rejects prune the path."""
    from unified_planning.exceptions import UPConflictingEffectsException, UPTypeError, UPProblemDefinitionError, UPValueError

    try:
        return _build(ctx, env, sk, names, vals, init)
    except (UPTypeError, UPConflictingEffectsException, UPProblemDefinitionError, UPValueError):
        ctx.assume(False)


def _num(em, v):
    return em.Int(v) if isinstance(v, int) else em.Real(v)


def _build(ctx, env, sk, nm, vals, init):
    from unified_planning.model import Fluent, InstantaneousAction, Object, Problem, Variable

    em, tm = env.expression_manager, env.type_manager
    g = G()
    g.env, g.em, g.tm, g.sk, g.nm = env, em, tm, sk, nm
    T = tm.UserType(nm["T"])
    S = tm.UserType(nm["S"], T)
    g.T, g.S = T, S
    o1, o2 = Object(nm["o1"], T, env), Object(nm["o2"], S, env)
    objs = [o1, o2]
    if sk.get("three_objects"):
        objs.append(Object(nm["o3"], T, env))
    g.objs, g.o1, g.o2 = objs, o1, o2
    ntype = sk.get("ntype", "int")
    nb = sk.get("n_bounds", "none")
    lb = vals.get("lb", 0) if nb in ("both", "lower") else None
    ub = vals.get("ub", 5) if nb in ("both", "upper") else None
    if ntype == "int":
        NT, UT = tm.IntType(lb, ub), tm.IntType()
    else:
        NT, UT = tm.RealType(None if lb is None else Fraction(lb), None if ub is None else Fraction(ub)), tm.RealType()
    b = Fluent(nm["b"], tm.BoolType(), environment=env)
    p = Fluent(nm["p"], tm.BoolType(), [_param(nm["x"], T, env)], env)
    n = Fluent(nm["n"], NT, environment=env)
    u = Fluent(nm["u"], UT, environment=env)
    fls = [b, p, u, n]
    w = None
    if sk.get("obj_fluent"):
        w = Fluent(nm["w"], T, [_param(nm["x"], T, env)], env)
        fls.append(w)
    g.b, g.p, g.n, g.u, g.w = b, p, n, u, w
    prob = Problem(nm["prob"], env)
    for fl in fls:
        prob.add_fluent(fl)
    prob.add_objects(objs)
    g.problem = prob
    C = lambda name: _num(em, vals[name])  # noqa: E731

    def var(role, typ):
        return Variable(nm[role], typ, env)

    def cond(i, x):
        F = em.FluentExp
        if i == 0:
            return F(b)
        if i == 1:
            return em.Not(F(b))
        if i == 2:
            return F(p, [x])
        if i == 3:
            return em.Equals(x, em.ObjectExp(o1))
        if i == 4:
            return em.LT(F(n), C("c"))
        if i == 5:
            return em.LE(C("c"), F(n))
        if i == 6:
            return em.Or(F(b), F(p, [x]))
        if i == 7:
            y = var("y", S)
            return em.Exists(F(p, [em.VariableExp(y)]), y)
        if i == 8:
            y = var("y", T)
            return em.Forall(em.Or(F(p, [em.VariableExp(y)]), F(b)), y)
        if i == 9:
            return em.LE(F(n), F(u))
        if i == 10:
            return em.Equals(F(w, [x]), em.ObjectExp(o1))
        if i == 11:
            return F(p, [F(w, [x])])
        if i == 12:
            return em.Not(F(p, [x]))
        if i == 13:
            return em.LE(em.Plus(F(n), em.Int(1)), C("c"))
        if i == 15:
            return em.LT(em.Minus(C("c"), F(n)), em.Div(F(n), em.Int(4)))
        if i == 16:
            return em.Implies(F(b), F(p, [x]))
        if i == 17:
            return em.Iff(F(b), F(p, [x]))
        if i == 18:
            return em.LE(em.Minus(F(n), F(u)), em.Times(C("c"), em.Plus(F(n), em.Int(2))))
        if i == 19:
            y = var("y", T)
            ye = em.VariableExp(y)
            return em.Exists(em.And(em.Not(em.Equals(ye, x)), F(p, [ye])), y)
        if i == 20:
            y, z = var("y", T), var("z", S)
            ye, ze = em.VariableExp(y), em.VariableExp(z)
            return em.Forall(em.Implies(F(p, [ye]), em.Exists(em.And(F(p, [ze]), em.Not(em.Equals(ze, ye))), z)), y)
        if i == 21:
            return em.Or(em.And(F(b), em.Or(F(p, [x]), em.And(em.Not(F(b)), F(p, [em.ObjectExp(o1)])))),
                         em.And(F(p, [em.ObjectExp(o2)]), em.Not(F(p, [x]))))
        if i == 22:
            return em.GT(em.Minus(F(n), C("c")), em.Minus(C("d"), F(n)))
        raise ValueError(i)

    g.cond = cond

    def add_effects(act, x, ids, effcond):
        F = em.FluentExp
        ec = lambda: cond(effcond, x)  # noqa: E731
        for i in ids:
            if i == 0:
                act.add_effect(F(b), em.FALSE())
            elif i == 1:
                act.add_effect(F(b), em.TRUE(), ec())
            elif i == 2:
                act.add_increase_effect(F(n), C("d"))
            elif i == 3:
                act.add_decrease_effect(F(n), C("d"))
            elif i == 4:
                act.add_effect(F(n), C("c1"))
            elif i == 5:
                act.add_effect(F(n), C("c2"), ec())
            elif i == 6:
                y = var("y", T)
                act.add_effect(F(p, [em.VariableExp(y)]), em.Bool(bool(sk.get("v6", 1))), forall=[y])
            elif i == 7:
                act.add_effect(F(w, [x]), x)
            elif i == 8:
                act.add_effect(F(n), em.Plus(F(n), C("d")))
            elif i == 9:
                act.add_increase_effect(F(n), C("d"), ec())
            elif i == 10:
                act.add_effect(F(p, [x]), em.TRUE())
            elif i == 11:
                act.add_effect(F(u), C("c1"))
            elif i == 12:
                act.add_effect(F(b), em.TRUE())
            elif i == 13:
                y = var("y", T)
                act.add_effect(F(p, [em.VariableExp(y)]), em.FALSE(), F(p, [em.VariableExp(y)]), forall=[y])
            elif i == 14:
                act.add_effect(F(w, [x]), em.ObjectExp(o1), ec())
            elif i == 15:
                act.add_effect(F(p, [x]), em.FALSE())
            elif i == 16:
                act.add_decrease_effect(F(n), C("d2"), ec())
            elif i == 17:
                act.add_effect(F(n), F(u))
            elif i == 18:
                act.add_effect(F(n), em.Minus(C("c1"), F(n)))
            elif i == 19:
                act.add_effect(F(n), em.Div(em.Minus(C("c1"), F(n)), em.Int(4)))
            elif i == 20:
                y = var("y", S)
                ye = em.VariableExp(y)
                act.add_effect(F(p, [ye]), em.TRUE(), em.Not(em.Equals(ye, x)), forall=[y])
            elif i == 21:
                act.add_increase_effect(F(n), em.Minus(F(u), em.Times(F(n), em.Int(2))))
            elif i == 22:
                y = var("y", T)
                act.add_effect(F(p, [em.VariableExp(y)]), em.TRUE(), cond(effcond, em.VariableExp(y)), forall=[y])
            else:
                raise ValueError(i)

    def mk_action(role, pre, effs, effcond):
        act = InstantaneousAction(nm[role], _parameters=_odict(nm["x"], T), _env=env)
        x = em.ParameterExp(act.parameter(nm["x"]))
        for i in pre:
            act.add_precondition(cond(i, x))
        add_effects(act, x, effs, effcond)
        return act

    g.mk_action, g.add_effects = mk_action, add_effects
    g.actions = []
    if sk.get("effs") is not None:
        g.a = mk_action("a", sk.get("pre", []), sk["effs"], sk.get("effcond", 2))
        prob.add_action(g.a)
        g.actions.append(g.a)
    if sk.get("second_action"):
        g.a2 = mk_action("a2", sk.get("pre2", []), sk["second_action"], sk.get("effcond2", 0))
        prob.add_action(g.a2)
        g.actions.append(g.a2)
    for i in sk.get("inv", []):
        if i == 0:
            prob.add_state_invariant(em.LE(em.FluentExp(n), C("c3")))
        elif i == 1:
            prob.add_state_invariant(em.Or(em.FluentExp(b), em.FluentExp(p, [em.ObjectExp(o1)])))
    for i in sk.get("goal", [0]):
        prob.add_goal(cond(i, em.ObjectExp(o1)))
    b0, p1, p2, p3 = init
    prob.set_initial_value(em.FluentExp(b), em.Bool(b0))
    for o, v in zip(objs, (p1, p2, p3)):
        prob.set_initial_value(em.FluentExp(p, [em.ObjectExp(o)]), em.Bool(v))
    if w is not None:
        wi = sk.get("w_init", "id")
        for j, o in enumerate(objs):
            tgt = o if wi == "id" else objs[(j + 1) % len(objs)] if wi == "rot" else o1
            prob.set_initial_value(em.FluentExp(w, [em.ObjectExp(o)]), em.ObjectExp(tgt))
    prob.set_initial_value(em.FluentExp(n), C("x0"))
    if not sk.get("undef_u", False):
        prob.set_initial_value(em.FluentExp(u), C("u0"))
    _add_metric(g, sk.get("metric"), C)
    return g


def _add_metric(g, kind, C):
    from unified_planning.model import metrics as M

    em, env, prob = g.em, g.env, g.problem
    if not kind:
        return
    if kind == "cost-const":
        costs = {g.actions[0]: C("k1")}
        m = M.MinimizeActionCosts(costs, default=em.Int(1), environment=env)
    elif kind == "cost-all":
        costs = {a: (C("k1") if i == 0 else em.Int(2)) for i, a in enumerate(g.actions)}
        m = M.MinimizeActionCosts(costs, environment=env)
    elif kind == "cost-fluent":
        costs = {g.actions[0]: em.Plus(em.FluentExp(g.n), C("k1"))}
        m = M.MinimizeActionCosts(costs, default=em.Int(1), environment=env)
    elif kind == "length":
        m = M.MinimizeSequentialPlanLength(environment=env)
    elif kind == "min-final":
        m = M.MinimizeExpressionOnFinalState(em.Minus(em.FluentExp(g.n), C("k1")), environment=env)
    elif kind == "max-final":
        m = M.MaximizeExpressionOnFinalState(em.FluentExp(g.n), environment=env)
    else:
        raise ValueError(kind)
    prob.add_quality_metric(m)


def _param(name, typ, env):
    from unified_planning.model import Parameter

    return Parameter(name, typ, env)


def _odict(name, typ):
    from collections import OrderedDict

    return OrderedDict([(name, typ)])


def describe(sk):
    return dict(pre=[COND_NAMES[i] for i in sk.get("pre", [])], effs=[EFF_NAMES[i] for i in sk.get("effs") or []],
                effcond=COND_NAMES[sk.get("effcond", 2)], goal=[COND_NAMES[i] for i in sk.get("goal", [0])],
                second_action=[EFF_NAMES[i] for i in sk.get("second_action") or []], ntype=sk.get("ntype", "int"),
                metric=sk.get("metric"))


# ------------------------------------------------------------------------------------------------------------------
# global-environment redirection (readers that do not pass their environment on)
# ------------------------------------------------------------------------------------------------------------------
@contextlib.contextmanager
def global_env(env):
    """While active, unified_planning.environment.get_environment(None) returns env.  Used around reader calls: the three
    readers create some model objects without passing their `environment` argument on (recorded findings, shards env-*),
    which would make every other path crash on a fresh environment."""
    import unified_planning.environment as E

    old = E.GLOBAL_ENVIRONMENT
    E.GLOBAL_ENVIRONMENT = env
    try:
        yield
    finally:
        E.GLOBAL_ENVIRONMENT = old


# ------------------------------------------------------------------------------------------------------------------
# renaming + aligned reference semantics
# ------------------------------------------------------------------------------------------------------------------
class Rho:
    """renaming of P's names into P''s: per category dictionaries original name -> new name"""

    def __init__(self, types, objects, fluents, actions):
        self.types, self.objects, self.fluents, self.actions = types, objects, fluents, actions

    @staticmethod
    def identity(problem):
        return Rho({t.name: t.name for t in problem.user_types}, {o.name: o.name for o in problem.all_objects},
                   {f.name: f.name for f in problem.fluents}, {a.name: a.name for a in problem.actions})

    def key(self, k):
        return (self.fluents[k[0]], tuple(self.objects[a] for a in k[1]))


def aligned_ref(R, problem2, rho, name="'"):
    """Ref over P' whose object indices equal those of R under rho (object-valued terms are shared)."""
    from vf.refsem import Ref

    R2 = Ref(problem2, name=name)
    objs2 = []
    for o in R.objects:
        objs2.append(problem2.object(rho.objects[o.name]))
    R2.objects = objs2
    R2.oidx = {o.name: i for i, o in enumerate(objs2)}
    return R2


def map_state(R, R2, rho, s):
    """P-state -> P'-state over the same z3 terms (int terms are cast where P' declares a real fluent)."""
    import z3
    from vf.refsem import RState, V

    vals = {}
    for k in R.gkeys:
        k2 = rho.key(k)
        v = s.vals[k]
        t = v.t
        f2 = R2.ginfo[k2][0]
        if f2.type.is_real_type() and t.sort() == z3.IntSort():
            t = z3.ToReal(t)
        vals[k2] = V(t, v.d)
    return RState(vals)


def states_differ(R, rho, s1, s2):
    """some ground fluent of the P-successor s1 and the P'-successor s2 differs (definedness or value)"""
    import z3
    from vf.refsem import _arith

    ds = []
    for k in R.gkeys:
        a, b = s1.vals[k], s2.vals[rho.key(k)]
        x, y = (a.t, b.t) if a.t.sort() == b.t.sort() else _arith(a.t, b.t)
        ds.append(a.d != b.d)
        ds.append(z3.And(a.d, x != y))
    return z3.Or(ds) if ds else z3.BoolVal(False)


def ground_pairs(R, R2, rho, limit=None):
    """[(action, objs, action', objs')] over all ground instances of P (declaration order)"""
    out = []
    for a in R.p.actions:
        a2 = R2.p.action(rho.actions[a.name])
        for objs in R.bindings(a):
            objs2 = [R2.p.object(rho.objects[o.name]) for o in objs]
            out.append((a, objs, a2, objs2))
    if limit is not None and len(out) > limit:
        step = len(out) / float(limit)
        out = [out[int(i * step)] for i in range(limit)]
    return out


def bisim(R, R2, rho, k, pairs=None):
    """-> (violation term, info).  exists i <= k, a state sigma reachable in i steps of P and
         goal_P(sigma) != goal_P'(rho sigma)  or  a ground action with applicable_P != applicable_P'
         or (applicable in both and the successors differ on some ground fluent)."""
    import z3
    from vf.refsem import RState, V

    pairs = pairs if pairs is not None else ground_pairs(R, R2, rho)
    s = R.init_state()
    reach = z3.BoolVal(True)
    viol = []
    info = dict(states=[s], choice=[], app=[], gas=[(a, o) for a, o, _, _ in pairs])
    for i in range(k + 1):
        s2 = map_state(R, R2, rho, s)
        local = [R.goal(s) != R2.goal(s2)]
        steps = []
        for a, objs, a2, objs2 in pairs:
            ok1, n1 = R.step(s, a, R.bind(a, objs))
            ok2, n2 = R2.step(s2, a2, R2.bind(a2, objs2))
            steps.append((ok1, n1))
            local.append(ok1 != ok2)
            local.append(z3.And(ok1, ok2, states_differ(R, rho, n1, n2)))
        viol.append(z3.And(reach, z3.Or(local)))
        if i == k:
            break
        c = z3.Int(f"act{i}")
        vals = {}
        for key in R.gkeys:
            t, d = s.vals[key].t, s.vals[key].d
            for j, (okj, sj) in enumerate(steps):
                t = z3.If(c == j, sj.vals[key].t, t)
                d = z3.If(c == j, sj.vals[key].d, d)
            vals[key] = V(t, d)
        app = z3.Or([z3.And(c == j, okj) for j, (okj, _) in enumerate(steps)]) if steps else z3.BoolVal(False)
        reach = z3.And(reach, app)
        s = RState(vals)
        info["states"].append(s)
        info["choice"].append(c)
        info["app"].append(app)
    return z3.Or(viol), info


def find_plan(R, info, k, valid=True, min_len=1, timeout_ms=20000):
    """a plan (list of ground-action indices) of length min_len..k that R judges valid (or invalid), or None"""
    import z3

    for n in list(range(min_len, k + 1)) + ([0] if min_len > 0 else []):
        pv = R.plan_valid(info, n)
        rng = z3.And([z3.And(info["choice"][i] >= 0, info["choice"][i] < len(info["gas"])) for i in range(n)]) if n else z3.BoolVal(True)
        s = z3.Solver()
        s.set("timeout", timeout_ms)
        s.add(rng, pv if valid else z3.Not(pv))
        if s.check() == z3.sat:
            m = s.model()
            return [m.eval(info["choice"][i], model_completion=True).as_long() for i in range(n)]
    return None


class Pseudo:
    """the conditions and effects of ONE time slot, presented to Ref.step as an instantaneous action"""

    def __init__(self, parameters, preconditions, effects):
        self.parameters, self.preconditions, self.effects = list(parameters), list(preconditions), list(effects)


def slot_violation(R, R2, rho, params, params2, conds, conds2, effs, effs2, tag):
    """from an ARBITRARY well-formed state: applicability (conditions + effect definedness) or successor differ for some
    ground binding of the parameters"""
    import z3

    s = R.fresh_state(tag)
    s2 = map_state(R, R2, rho, s)
    wf = R.state_wf(s)
    a, a2 = Pseudo(params, conds, effs), Pseudo(params2, conds2, effs2)
    local = []
    for objs in R.bindings(a):
        objs2 = [R2.p.object(rho.objects[o.name]) for o in objs]
        ok1, n1 = R.step(s, a, R.bind(a, objs), invariants=False, bounds=False)
        ok2, n2 = R2.step(s2, a2, R2.bind(a2, objs2), invariants=False, bounds=False)
        local.append(ok1 != ok2)
        local.append(z3.And(ok1, ok2, states_differ(R, rho, n1, n2)))
    return z3.And(wf, z3.Or(local)) if local else z3.BoolVal(False)


def expr_violation(R, R2, rho, e, e2, params=(), params2=(), tag="e"):
    """the two expressions differ (definedness or value) in some well-formed state under some ground binding"""
    import z3
    from vf.refsem import _arith

    s = R.fresh_state(tag)
    s2 = map_state(R, R2, rho, s)
    a, a2 = Pseudo(params, [], []), Pseudo(params2, [], [])
    local = []
    for objs in R.bindings(a):
        objs2 = [R2.p.object(rho.objects[o.name]) for o in objs]
        v1 = R.expr(e, s, R.bind(a, objs))
        v2 = R2.expr(e2, s2, R2.bind(a2, objs2))
        x, y = (v1.t, v2.t) if v1.t.sort() == v2.t.sort() else _arith(v1.t, v2.t)
        local.append(z3.Or(v1.d != v2.d, z3.And(v1.d, x != y)))
    return z3.And(R.state_wf(s), z3.Or(local))


# ------------------------------------------------------------------------------------------------------------------
# concrete comparisons
# ------------------------------------------------------------------------------------------------------------------
def const_py(e):
    if e.is_bool_constant():
        return bool(e.constant_value())
    if e.is_int_constant() or e.is_real_constant():
        return Fraction(e.constant_value())
    if e.is_object_exp():
        return ("obj", e.object().name)
    return ("expr", str(e))


def init_map(problem):
    out = {}
    for fe, v in problem.initial_values.items():
        out[(fe.fluent().name, tuple(a.object().name for a in fe.args))] = const_py(v)
    return out


def type_chain(t):
    out = []
    while t is not None:
        out.append(t.name)
        t = t.father
    return out


def compare_static(ctx, P, P2, rho, numeric_as_real=False, tag=""):
    """objects (names, types, hierarchy), fluent signatures, action signatures and the initial state, under rho"""
    o1 = {rho.objects[o.name]: [rho.types[n] for n in type_chain(o.type)] for o in P.all_objects}
    o2 = {o.name: [n for n in type_chain(o.type) if not (numeric_as_real and n == "object")] for o in P2.all_objects}
    ctx.check(o1 == o2, f"{tag}objects-differ", f"objects of the re-read problem differ under the renaming: {o1} vs {o2}")

    def sig(f, ren_f, ren_t):
        t = f.type
        if t.is_user_type():
            tt = ("user", ren_t(t.name))
        elif t.is_bool_type():
            tt = ("bool",)
        elif numeric_as_real:
            tt = ("num",)
        else:
            tt = ("int" if t.is_int_type() else "real", t.lower_bound, t.upper_bound)
        return (tt, tuple(ren_t(p.type.name) for p in f.signature))

    f1 = {rho.fluents[f.name]: sig(f, None, lambda n: rho.types[n]) for f in P.fluents}
    f2 = {f.name: sig(f, None, lambda n: n) for f in P2.fluents}
    ctx.check(f1 == f2, f"{tag}fluents-differ", f"fluent declarations differ under the renaming: {f1} vs {f2}")
    a1 = {rho.actions[a.name]: tuple(rho.types[p.type.name] for p in a.parameters) for a in P.actions}
    a2 = {a.name: tuple(p.type.name for p in a.parameters) for a in P2.actions}
    ctx.check(a1 == a2, f"{tag}actions-differ", f"action signatures differ under the renaming: {a1} vs {a2}")
    i1 = {}
    for k, v in init_map(P).items():
        if isinstance(v, tuple) and v[0] == "obj":
            v = ("obj", rho.objects[v[1]])
        i1[rho.key(k)] = v
    i2 = init_map(P2)
    if i1 != i2:
        kinds = set()
        for k in set(i1) | set(i2):
            if i1.get(k, "undefined") != i2.get(k, "undefined"):
                if k not in i1:
                    kinds.add("undefined-became-" + str(i2[k]))
                elif k not in i2:
                    kinds.add("defined-became-undefined")
                elif isinstance(i1[k], Fraction) and isinstance(i2[k], Fraction) and not isinstance(i1[k], bool) and abs(i1[k] - i2[k]) < Fraction(1, 10 ** 9):
                    kinds.add("decimal-rounded")
                else:
                    kinds.add("value")
        diff = {str(k): (str(i1.get(k, "undefined")), str(i2.get(k, "undefined"))) for k in sorted(set(i1) | set(i2), key=str)
                if i1.get(k, "undefined") != i2.get(k, "undefined")}
        ctx.fail(f"{tag}init-differs:{'+'.join(sorted(kinds))}",
                 f"initial state differs under the renaming (ground fluent: (original, re-read)): {diff}")
