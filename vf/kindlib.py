"""Shared, crosshair-free helpers of the C32 / C09(B) harnesses: building the (symbolic or replayed) problem kind,
the requirement table of every operation mode, the qualification oracle, and the run-time computation of the
feature sub-universe a shard frees.  Importable in the replay interpreter (no crosshair import here)."""


def too_new(version):
    from unified_planning.model.problem_kind_versioning import FEATURES_VERSIONS

    return sorted(f for f, (added, _dep) in FEATURES_VERSIONS.items() if added > version)


def deprecated(version):
    from unified_planning.model.problem_kind_versioning import FEATURES_VERSIONS

    return sorted(f for f, (added, dep) in FEATURES_VERSIONS.items() if added <= version and dep is not None and dep <= version)


def universe(version):
    """Features a kind of this version may contain (the constructor's invariant), sorted."""
    from unified_planning.model.problem_kind import all_features

    bad = set(too_new(version))
    return sorted(f for f in all_features if f not in bad)


def make_kind(ctx, name, version, free=None, present=()):
    """ProblemKind whose feature bits in `free` (None = all) are solver variables; `present` are fixed present;
    everything else absent.  Replay: the recorded concrete set."""
    from unified_planning.model.problem_kind import ProblemKind

    present = [p for p in present if free is None or p not in free]
    s = ctx.feature_set(name, free=free, absent=too_new(version))
    if ctx.mode == "replay":
        return ProblemKind(set(s) | set(present), version=version)
    from vf import kindsym

    s = kindsym.FastSFS.of(s)
    for p in present:
        s.add(p)
    return kindsym.inject(s, version)


def clone(k):
    """Independent copy, state constructed directly (the real comparison operators mutate _features in place)."""
    from unified_planning.model.problem_kind import ProblemKind

    c = ProblemKind(version=k._version)
    c._features = k._features.copy()
    return c


def setup_factory(ctx, env, registry):
    """The environment's real factory; registry 'ext' adds the stub engines through Factory.add_engine."""
    with ctx.untraced():
        f = env.factory
        if registry == "ext":
            from vf import c32_engines

            c32_engines.register(f)
        if ctx.mode == "sym":
            from vf import kindsym

            kindsym.native_supported_kinds([f.engine(n) for n in f.engines])
    return f


def require(ctx, build, sig, msg):
    """ctx.require(build(), ...) evaluated outside the tracer.  Under the tracer CrossHair's isinstance() reports a
    SymbolicBool as `bool`, so vf.logic's combinators and BaseCtx.require would branch on it (sound, but one fork per
    operand instead of one query); outside the tracer they build the z3 term and pose the single query."""
    with ctx.untraced():
        ctx.require(build(), sig, msg)


# ---- requirements -----------------------------------------------------------------------------------------------
def requirements(mode_value, plan_kinds=None):
    """Every requirement combination the public API of that operation mode can pass to _get_engine:
    list of dict(og=, ck=, pk=, ag=) with enum NAMES (JSON-friendly) or None."""
    from unified_planning.engines.mixins.anytime_planner import AnytimeGuarantee
    from unified_planning.engines.mixins.compiler import CompilationKind
    from unified_planning.engines.mixins.oneshot_planner import OptimalityGuarantee
    from unified_planning.plans import PlanKind

    ogs = [None] + [x.name for x in OptimalityGuarantee]
    pks = [None] + [x.name for x in PlanKind] if plan_kinds is None else list(plan_kinds)
    none = dict(og=None, ck=None, pk=None, ag=None)
    if mode_value in ("oneshot_planner", "replanner", "portfolio_selector"):
        return [dict(none, og=o) for o in ogs]
    if mode_value == "anytime_planner":
        return [dict(none, ag=a) for a in [None] + [x.name for x in AnytimeGuarantee]]
    if mode_value == "plan_validator":
        return [dict(none, pk=p) for p in pks]
    if mode_value == "compiler":
        return [dict(none, ck=c) for c in [None] + [x.name for x in CompilationKind]]
    if mode_value == "plan_repairer":
        return [dict(none, pk=p, og=o) for p in pks for o in ogs]
    return [none]


def req_enums(req):
    from unified_planning.engines.mixins.anytime_planner import AnytimeGuarantee
    from unified_planning.engines.mixins.compiler import CompilationKind
    from unified_planning.engines.mixins.oneshot_planner import OptimalityGuarantee
    from unified_planning.plans import PlanKind

    return dict(og=None if req["og"] is None else OptimalityGuarantee[req["og"]],
                ck=None if req["ck"] is None else CompilationKind[req["ck"]],
                pk=None if req["pk"] is None else PlanKind[req["pk"]],
                ag=None if req["ag"] is None else AnytimeGuarantee[req["ag"]])


def static_ok(E, mode_value, rq):
    """The kind-independent part of 'E qualifies': implements the operation mode and every requested requirement
    (written from the documentation of the operation modes, not from the factory's code)."""
    if not getattr(E, "is_" + mode_value)():
        return False
    if rq["og"] is not None and not E.satisfies(rq["og"]):
        return False
    if rq["ag"] is not None and not E.ensures(rq["ag"]):
        return False
    if rq["pk"] is not None and not E.supports_plan(rq["pk"]):
        return False
    if rq["ck"] is not None and not E.supports_compilation(rq["ck"]):
        return False
    return True


# ---- sub-universe ---------------------------------------------------------------------------------------------------
def valid_features(version):
    from unified_planning.model.problem_kind import get_valid_features

    return set(get_valid_features(version))


def column_representatives(classes, version):
    """One representative feature per distinct 'support column' (which of `classes` list the feature in their
    supported kind), mixed columns first, then the all-absent column (a feature no candidate supports) and the
    all-present column.  Only the column of a feature matters to which candidates accept a kind."""
    sk = [set(E.supported_kind().features) for E in classes]
    cols = {}
    for f in sorted(valid_features(version)):
        col = tuple(f in s for s in sk)
        cols.setdefault(col, []).append(f)
    mixed = [c for c in cols if any(c) and not all(c)]
    mixed.sort(key=lambda c: (abs(sum(c) - len(c) / 2), cols[c][0]))
    order = mixed + [c for c in cols if not any(c)] + [c for c in cols if c and all(c)]
    if not classes:
        order = list(cols)
    return [cols[c][0] for c in order], {cols[c][0]: cols[c] for c in order}


def rpk_sensitive(E, ck, version):
    """Features that E.resulting_problem_kind reads or writes, found by probing the real function on concrete kinds
    (every singleton kind, and the supported kind with one feature removed).  Only used to CHOOSE which bits a
    shard frees; a feature missed here is simply fixed in that shard."""
    from unified_planning.model.problem_kind import ProblemKind

    def run(feats):
        try:
            return set(E.resulting_problem_kind(ProblemKind(set(feats), version=version), ck).features)
        except Exception:  # a crash is a reaction too (and is reported by the harness on the real run)
            return None

    valid = valid_features(version)
    reads, writes = [], set()
    r0 = run(())
    if r0:
        writes |= r0
    sup = set(E.supported_kind().features) & valid
    rs = run(sup)
    for f in sorted(valid):
        r = run((f,))
        hit = r is None or r != ({f} | (r0 or set()))
        if r is not None:
            writes |= r - {f}
        if not hit and f in sup and rs is not None:
            r2 = run(sup - {f})
            hit = r2 is None or (r2 - {f}) != (rs - {f})
        if hit:
            reads.append(f)
    return reads, sorted(writes)
