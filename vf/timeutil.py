"""Helpers shared by the temporal harnesses (C04, C05): symbolic rationals in normal form and an exact
engine shim for comparisons of a symbolic int with +-infinity.  Nothing here touches /repo."""
from fractions import Fraction


def mkfrac(n, d):
    """Fraction n/d for n, d > 0 coprime BY CONSTRUCTION, without running gcd (which forks on a symbolic numerator)."""
    f = Fraction.__new__(Fraction)
    f._numerator = n
    f._denominator = d
    return f


def qfrac(q, r):
    """The Fraction q + r/4 (q an int, possibly symbolic; r in 0..3) in normal form: q, (4q+1)/4, (2q+1)/2, (4q+3)/4."""
    if r == 0:
        return Fraction(q)
    if r == 2:
        return mkfrac(2 * q + 1, 2)
    return mkfrac(4 * q + r, 4)


_INF = float("inf")
_done = False


def install_inf_shim(ctx):
    """S7 (exact): a symbolic int compared with / added to a concrete +-inf float.

    TypeChecker.walk_plus/minus/times compute `lower == -float("inf")` where `lower` is a sum of constant payloads.  With a
    symbolic payload CrossHair converts the int to a symbolic float and forks on its float model; the IEEE branch
    (fpRealToFP) makes every later query take 10+ s or time out.  An int is finite, so the answers are constants:
    this shim returns them directly.  Installed only in symbolic mode; replays run without it."""
    global _done
    if ctx.mode != "sym" or _done:
        return
    _done = True
    from crosshair.libimpl.builtinslib import SymbolicInt
    from crosshair.tracers import NoTracing

    base = {}
    table = {"__eq__": lambda inf_pos: False, "__ne__": lambda inf_pos: True,
             "__lt__": lambda inf_pos: inf_pos, "__le__": lambda inf_pos: inf_pos,
             "__gt__": lambda inf_pos: not inf_pos, "__ge__": lambda inf_pos: not inf_pos}

    def nonfinite(x):
        return type(x) is float and (x == _INF or x == -_INF)

    def mk_cmp(name):
        orig = getattr(SymbolicInt, name)
        base[name] = orig

        def method(self, other):
            with NoTracing():
                nf = nonfinite(other)
                if nf:
                    return table[name](other > 0)
            return orig(self, other)
        method.__name__ = name
        return method

    def mk_add(name):
        orig = getattr(SymbolicInt, name)

        def method(self, other):
            with NoTracing():
                if nonfinite(other):
                    return other
            return orig(self, other)
        method.__name__ = name
        return method

    for name in table:
        setattr(SymbolicInt, name, mk_cmp(name))
    for name in ("__add__", "__radd__"):
        setattr(SymbolicInt, name, mk_add(name))
