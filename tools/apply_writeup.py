#!/usr/bin/env python3
"""usage: apply_writeup.py <findings/X.md> [--check]  : extract ```diff blocks and git-apply them to /repo"""
import re, subprocess, sys
md = open(sys.argv[1]).read()
blocks = re.findall(r"```diff\n(.*?)```", md, re.S)
if not blocks:
    print("no diff block"); sys.exit(2)
patch = "\n".join(blocks)
args = ["git", "-C", "/repo", "apply", "--recount"] + (["--check"] if "--check" in sys.argv else []) + ["-"]
r = subprocess.run(args, input=patch, text=True, capture_output=True)
print(r.returncode, r.stderr[-2000:])
lines = [l for l in patch.splitlines() if (l.startswith('+') or l.startswith('-')) and not l.startswith(('+++','---'))]
print("changed lines:", len(lines))
sys.exit(r.returncode)
