#!/bin/bash
# usage: tools/seed_eval.sh <seed dir containing patch.diff demo.py> <property id> [--tests] [--jobs N]
# Confirms a seeded change on a scratch copy of /repo HEAD (never /repo): patch applies, demo fails with it and passes
# without it, (optionally) the full test suite passes with it, and runs the registered quick check against it.
SD=$(realpath "$1"); PID=$2; shift 2
TESTS=0; JOBS=${VERIF_JOBS:-16}
while [ $# -gt 0 ]; do case $1 in --tests) TESTS=1;; --jobs) JOBS=$2; shift;; esac; shift; done
D=$(mktemp -d /tmp/seedeval.XXXXXX)
git -C /repo archive HEAD | tar -x -C "$D"
cp -r /repo/up_test_cases "$D"/ 2>/dev/null
echo "== $PID $SD"
PYTHONPATH="$D" timeout 600 /venv/bin/python "$SD/demo.py" >/dev/null 2>&1; echo "demo_clean_rc=$?"
( cd "$D" && git apply --recount "$SD/patch.diff" 2>/dev/null || patch -p1 -s --no-backup-if-mismatch < "$SD/patch.diff" ) >/dev/null 2>&1; echo "apply_rc=$?"
PYTHONPATH="$D" timeout 600 /venv/bin/python "$SD/demo.py" >/dev/null 2>&1; echo "demo_patched_rc=$?"
if [ $TESTS = 1 ]; then
  ( cd "$D" && PYTHONPATH="$D" timeout 5400 /venv/bin/python -m pytest -q -p no:cacheprovider --timeout=900 2>&1 | tail -1 ) | sed 's/^/tests: /'
fi
cd /verif
VERIF_REPO="$D" VERIF_JOBS=$JOBS timeout 3600 ./check "$PID" --tier quick > "$D/check.log" 2>&1; echo "check_rc=$?"
grep -E "^VIOLATION" "$D/check.log" | head -4; grep -E "^HARNESS|^NON-REPRO| quick:" "$D/check.log" | head -4; grep -c "^KNOWN" "$D/check.log" | sed "s/^/known_lines=/"
rm -rf "$D"
