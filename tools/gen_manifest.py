#!/usr/bin/env python3
"""Regenerate MANIFEST.json from the per-property modules (vf/props/cNN.py: MANIFEST dict) ."""
import importlib, json, os, sys
ROOT = os.path.dirname(os.path.dirname(os.path.abspath(__file__)))
sys.path.insert(0, ROOT)
props = [json.loads(l) for l in open(os.path.join(ROOT, "properties.jsonl"))]
na_path = os.path.join(ROOT, "not_applicable.json")
NA = json.load(open(na_path)) if os.path.exists(na_path) else {}
checks, not_app = [], []
for p in props:
    pid = p["id"]
    path = os.path.join(ROOT, "vf", "props", pid.lower() + ".py")
    src = open(path).read() if os.path.exists(path) else ""
    if "MANIFEST = " not in src or pid in NA:
        not_app.append(dict(property_id=pid, reason=NA.get(pid, "check not built yet (see DESIGN.md section 4 for the plan)")))
        continue
    ns = {}
    # MANIFEST is a literal dict at module level; evaluate only that assignment
    import ast
    tree = ast.parse(src)
    for node in tree.body:
        if isinstance(node, ast.Assign) and getattr(node.targets[0], "id", "") in ("MANIFEST", "LEVEL"):
            ns[node.targets[0].id] = eval(compile(ast.Expression(node.value), path, 'eval'), {'dict': dict})
    m = ns["MANIFEST"]
    checks.append(dict(
        property_id=pid,
        quick_cmd=f"./check {pid} --tier quick",
        thorough_cmd=f"./check {pid} --tier thorough",
        evidence_file=f"/verif/evidence/{pid}.json",
        replay_cmd_template=f"./check {pid} --replay {{path}}",
        engine=m.get("engine", "symex"),
        level_claimed=dict(category=ns.get("LEVEL", "model_checking"), text=m["text"], design_ref=m.get("design_ref", f"DESIGN.md section 4, {pid}")),
        level_note=m["note"],
        technique=m["technique"],
    ))
manifest = dict(
    version=1,
    setup_cmd="./setup.sh",
    hooks=dict(guard="UP_VERIF", enable="no hooks: all instrumentation is harness-side (vf/shims.py); the guard name is reserved and unused",
               baseline_off_cmd="cd /repo && /venv/bin/python -m pytest -ra -q -p no:cacheprovider --timeout=900 --continue-on-collection-errors",
               source_commits=[], add_only=True),
    engines=[
        dict(name="symex", path="vf/symctx.py", kind_free_text="path-exhaustive symbolic execution of the real Python functions on CrossHair's runtime (z3); second-stage universally quantified queries on the path solver",
             serves_properties=[c["property_id"] for c in checks if c["engine"] == "symex"]),
        dict(name="direct", path="vf/direct.py", kind_free_text="bounded-exhaustive choice DFS (re-execution) with z3 second-stage queries (BMC / equivalence over all states and plans) on the output of the real code",
             serves_properties=[c["property_id"] for c in checks if c["engine"] == "direct"]),
    ],
    checks=checks,
    notes="Every check: ./check <id> --tier quick|thorough; exit 0 pass, 1 replayed violation (VIOLATION line), 3 harness error. Known findings: known_findings.jsonl.",
    not_applicable=not_app,
)
json.dump(manifest, open(os.path.join(ROOT, "MANIFEST.json"), "w"), indent=1)
print(f"checks={len(checks)} not_applicable={len(not_app)}")
