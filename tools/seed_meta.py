#!/usr/bin/env python3
"""Write <seeded dir>/<ID>/meta.json from notes.md and the latest evaluation log <results dir>/<ID>.log.
usage: tools/seed_meta.py [seeded scratch/seed_results]   |   tools/seed_meta.py seeded2 scratch/seed2_results"""
import json, os, re, sys
ROOT = os.path.dirname(os.path.dirname(os.path.abspath(__file__)))
SEEDED, RESULTS = (sys.argv[1:3] if len(sys.argv) >= 3 else ("seeded", "scratch/seed_results"))
SECTION = "8.8" if SEEDED == "seeded" else "8.9"
LOGNAME = (sys.argv[3] if len(sys.argv) >= 4 else "{pid}.log")  # e.g. "seeded3-{pid}.log" for scratch/seedfinal
for pid in sorted(os.listdir(f"{ROOT}/{SEEDED}")):
    d = f"{ROOT}/{SEEDED}/{pid}"
    if not os.path.isdir(d): continue
    notes = open(f"{d}/notes.md").read() if os.path.exists(f"{d}/notes.md") else ""
    lines = [l.strip("-* \t") for l in notes.splitlines() if l.strip() and not l.startswith("#")]
    what = next((l for l in lines if re.match(r"(?i)(\*\*)?(change|what)", l)), lines[0] if lines else "")
    needs = next((l for l in lines if re.search(r"(?i)need|manifest|shows only|trigger", l) and l != what), "")
    log = f"{ROOT}/{RESULTS}/" + LOGNAME.format(pid=pid)
    tests = " ".join(l for l in lines if re.match(r"(?i)tests? run", l))[:600]
    res = open(log).read() if os.path.exists(log) else ""
    g = lambda k: (re.search(rf"{k}=(\d+)", res) or [None, None])[1]
    viol = re.findall(r"^VIOLATION property=\S+ replay=(\S+)", res, re.M)
    caught = g("check_rc") == "1" and bool(viol)
    hdr = re.search(r"^== (C\d\d) ", res, re.M)
    check_id = hdr.group(1) if hdr else pid[:3]  # the check that was run (differs from the property for seeded3/C01C)
    prop = pid[:3]
    meta = dict(property=prop, name=f"seed-{pid}", what=what[:600], needs=needs[:600],
                origin="fresh sub-agent given only the property text and a scratch git worktree (nothing from /verif)",
                ran=["tools/seed_eval.sh %s/%s %s  (scratch copy of /repo HEAD: demo on clean copy, git apply patch.diff, demo on patched copy, "
                     "./check %s --tier quick with VERIF_REPO=<copy>)" % (SEEDED, pid, check_id, check_id),
                     ("full test suite on the patched copy: see DESIGN.md 8.8" if SEEDED == "seeded" else
                      "existing tests with the patch, as run by the sub-agent: " + (tests or "see notes.md") + "; combined full-suite runs: see DESIGN.md 8.9")],
                demo_clean_rc=g("demo_clean_rc"), patch_applies=g("apply_rc") == "0", demo_patched_rc=g("demo_patched_rc"),
                check_rc=g("check_rc"), caught=caught, caught_by=f"./check {check_id} --tier quick ({len(viol)} replayed violations)" if caught else "",
                missed_why="" if caught else f"see DESIGN.md {SECTION}")
    json.dump(meta, open(f"{d}/meta.json", "w"), indent=1)
    print(pid, caught, meta["demo_clean_rc"], meta["demo_patched_rc"], meta["check_rc"])
