#!/usr/bin/env python3
"""Write seeded/<ID>/meta.json from notes.md and the latest evaluation log scratch/seed_results/<ID>.log."""
import json, os, re, sys
ROOT = os.path.dirname(os.path.dirname(os.path.abspath(__file__)))
for pid in sorted(os.listdir(f"{ROOT}/seeded")):
    d = f"{ROOT}/seeded/{pid}"
    if not os.path.isdir(d): continue
    notes = open(f"{d}/notes.md").read() if os.path.exists(f"{d}/notes.md") else ""
    lines = [l.strip("-* \t") for l in notes.splitlines() if l.strip() and not l.startswith("#")]
    what = next((l for l in lines if re.match(r"(?i)(\*\*)?(change|what)", l)), lines[0] if lines else "")
    needs = next((l for l in lines if re.search(r"(?i)need|manifest|shows only|trigger", l) and l != what), "")
    log = f"{ROOT}/scratch/seed_results/{pid}.log"
    res = open(log).read() if os.path.exists(log) else ""
    g = lambda k: (re.search(rf"{k}=(\d+)", res) or [None, None])[1]
    viol = re.findall(r"^VIOLATION property=\S+ replay=(\S+)", res, re.M)
    caught = g("check_rc") == "1" and bool(viol)
    meta = dict(property=pid, name=f"seed-{pid}", what=what[:600], needs=needs[:600],
                origin="fresh sub-agent given only the property text and a scratch git worktree (nothing from /verif)",
                ran=["tools/seed_eval.sh seeded/%s %s  (scratch copy of /repo HEAD: demo on clean copy, git apply patch.diff, demo on patched copy, "
                     "./check %s --tier quick with VERIF_REPO=<copy>)" % (pid, pid, pid),
                     "full test suite on the patched copy: see DESIGN.md 8.8"],
                demo_clean_rc=g("demo_clean_rc"), patch_applies=g("apply_rc") == "0", demo_patched_rc=g("demo_patched_rc"),
                check_rc=g("check_rc"), caught=caught, caught_by=f"./check {pid} --tier quick ({len(viol)} replayed violations)" if caught else "",
                missed_why="" if caught else "see DESIGN.md 8.8")
    json.dump(meta, open(f"{d}/meta.json", "w"), indent=1)
    print(pid, caught, meta["demo_clean_rc"], meta["demo_patched_rc"], meta["check_rc"])
