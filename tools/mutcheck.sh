#!/bin/bash
# usage: tools/mutcheck.sh <patch.diff> <property id> [tier]
# Applies the patch to a scratch copy of /repo (never /repo itself), runs the check against it, removes the copy.
set -u
PATCH=$(realpath "$1"); PID=$2; TIER=${3:-quick}
D=$(mktemp -d /tmp/mut.XXXXXX)
git -C /repo archive HEAD | tar -x -C "$D"
( cd "$D" && patch -p1 -s < "$PATCH" ) || { echo "patch failed"; rm -rf "$D"; exit 2; }
cd /verif
VERIF_REPO="$D" ./check "$PID" --tier "$TIER" 2>&1 | tail -${MUT_TAIL:-6}
rc=${PIPESTATUS[0]}
rm -rf "$D"
echo "mutcheck rc=$rc"
exit $rc
